//! Executes case lines against the real library (in-process) and renders one canonical observation per line.
use crate::util::*;
use h264_reader::annexb::AnnexBReader;
use h264_reader::avcc::AvcDecoderConfigurationRecord;
use h264_reader::nal::pps::PicParameterSet;
use h264_reader::nal::sei::SeiReader;
use h264_reader::nal::slice::SliceHeader;
use h264_reader::nal::sps::SeqParameterSet;
use h264_reader::nal::{Nal, NalHeader, RefNal};
use h264_reader::push::{NalAccumulator, NalFragmentHandler, NalInterest};
use h264_reader::rbsp::{BitRead, BitReader, BitReaderError, ByteReader};
use h264_reader::Context;
use std::convert::TryFrom;
use std::io::{BufRead, Read};
use std::panic::{catch_unwind, AssertUnwindSafe};

pub fn kind(e: &std::io::Error) -> String { format!("{:?}", e.kind()).replace("UnexpectedEof", "Eof") }

pub fn bre(e: &BitReaderError) -> String {
    match e {
        BitReaderError::ReaderErrorFor(n, e) => format!("Io({},{})", n, kind(e)),
        BitReaderError::ExpGolombTooLarge(n) => format!("TooLarge({})", n),
        BitReaderError::RemainingData => "Remaining".into(),
        BitReaderError::Unaligned => "Unaligned".into(),
    }
}

/// does a Debug rendering of an error mention WouldBlock? (the class the syntax parsers are compared on)
/// diagnostic mode (`VERIF_FULL_ERR=1`): SPS / PPS / slice errors are printed in full instead of by class
pub fn err_show<E: std::fmt::Debug>(e: &E) -> String { if std::env::var("VERIF_FULL_ERR").is_ok() { format!("Err {:?}", e) } else { err_class(e).to_string() } }
/// level_idc plus `b` for Level 1b (the only two enum values sharing an idc)
/// level_idc, `b` for Level 1b, `?` when the value is carried as `Unknown(idc)` (not a level of Table A-1)
pub fn level_str(l: h264_reader::nal::sps::Level) -> String { format!("{}{}", l.level_idc(), if l == h264_reader::nal::sps::Level::L1_b { "b" } else if matches!(l, h264_reader::nal::sps::Level::Unknown(_)) { "?" } else { "" }) }
pub fn err_class<E: std::fmt::Debug>(e: &E) -> &'static str { if format!("{:?}", e).contains("WouldBlock") { "WouldBlock" } else { "Err" } }

#[derive(Default)]
pub struct Rec { pub calls: Vec<String> }
impl NalFragmentHandler for Rec {
    fn nal_fragment(&mut self, bufs: &[&[u8]], end: bool) {
        self.calls.push(format!("{};{}", bufs.iter().map(|b| hex(b)).collect::<Vec<_>>().join(","), if end { 1 } else { 0 }));
    }
}

pub fn chunks_of(s: &str) -> Vec<Vec<u8>> { if s == "-" { vec![] } else { s.split(',').map(unhex).collect() } }

/// SEI payload type id of a `HeaderType`, recovered by inverting the real reader on ids 0..=1100
pub struct SeiTypes { names: Vec<String> }
impl SeiTypes {
    pub fn new() -> SeiTypes {
        let mut names = vec![];
        for id in 0u32..=1100 {
            let mut d = vec![]; let mut t = id; while t >= 255 { d.push(0xff); t -= 255; } d.push(t as u8); d.push(0); d.push(0x80);
            let mut scratch = vec![];
            let mut sr = SeiReader::from_rbsp_bytes(&d[..], &mut scratch);
            // (probing the library: a panic there must not take the harness down - the case lines will show it)
            let name = catch_unwind(AssertUnwindSafe(|| match sr.next() { Ok(Some(m)) => format!("{:?}", m.payload_type), _ => "?".to_string() })).unwrap_or_else(|_| "PANIC".to_string());
            names.push(name);
        }
        SeiTypes { names }
    }
    pub fn id_of(&self, t: &str) -> String {
        let hits: Vec<usize> = self.names.iter().enumerate().filter(|(_, n)| *n == t).map(|(i, _)| i).collect();
        if hits.len() == 1 { return hits[0].to_string(); }
        if hits.is_empty() { if let Some(x) = t.strip_prefix("ReservedSeiMessage(") { return x.trim_end_matches(')').to_string(); } }
        format!("?{}", t)
    }
    pub fn name_of(&self, id: usize) -> &str { &self.names[id] }
}

/// Debug names of the T.35 country values for the bytes 0..=254 (0xFF is the extension escape)
fn t35_names() -> Vec<String> {
    use h264_reader::nal::sei::{SeiMessage, HeaderType, user_data_registered_itu_t_t35::ItuTT35};
    (0..=254u8).map(|b| { let pl = [b]; let msg = SeiMessage { payload_type: HeaderType::UserDataRegisteredItuTT35, payload: &pl[..] };
        catch_unwind(AssertUnwindSafe(|| match ItuTT35::read(&msg) { Ok((c, _)) => format!("{:?}", c), Err(_) => "?".to_string() })).unwrap_or_else(|_| "PANIC".to_string()) }).collect()
}

pub struct Runner { scratch: std::cell::OnceCell<Context>, pub ctx: Context, pub sei_types: std::rc::Rc<SeiTypes>, pub t35_names: std::rc::Rc<Vec<String>> }

fn render_avcc_iter<'a>(it: &mut dyn Iterator<Item = Result<&'a [u8], h264_reader::avcc::ParamSetError>>, limit: usize) -> String {
    let mut v = vec![];
    for x in it.take(limit) {
        match x {
            Ok(b) => v.push(hex(b)),
            Err(e) => {
                let t = format!("{:?}", e);
                let t = t.split(|c| c == '(' || c == ' ' || c == '{').next().unwrap().to_string();
                let t = if t == "NalHeader" { "ForbiddenZeroBit".to_string() } else if t == "EmptyParamSet" { "Empty".to_string() } else { t };
                return format!("ParamSet({})", t);
            }
        }
    }
    format!("Ok({})", v.join(","))
}

fn nums(t: &str) -> Vec<String> { t.split(|c: char| !c.is_ascii_digit()).filter(|s| !s.is_empty()).map(|s| s.to_string()).collect() }

impl Runner {
    pub fn new() -> Runner { Runner { scratch: Default::default(), ctx: Context::new(), sei_types: std::rc::Rc::new(SeiTypes::new()), t35_names: std::rc::Rc::new(t35_names()) } }

    pub fn run_line(&mut self, line: &str) -> String {
        let r = catch_unwind(AssertUnwindSafe(|| self.run_inner(line)));
        match r { Ok(s) => s, Err(_) => "PANIC".to_string() }
    }

    fn run_inner(&mut self, line: &str) -> String {
        let toks: Vec<&str> = line.split_whitespace().collect();
        if toks.is_empty() { return "bad-op".into(); }
        match toks[0] {
            "annexb" => self.annexb(&toks[1..]),
            "rbsp" => self.rbsp(&toks[1..]),
            "decodenal" => self.decodenal(toks.get(1).copied().unwrap_or("-")),
            "refnal" => self.refnal(&toks[1..]),
            "refnalhuge" => self.refnalhuge(&toks[1..]),
            "acc" => self.acc(&toks[1..]),
            "sei" => self.sei(toks[1], toks[2] == "1"),
            "avcc" => self.avcc(&unhex(toks.get(1).copied().unwrap_or(""))),
            "reset" => { self.ctx = Context::new(); "ok".into() }
            "full" => "ok".into(),   // announces the complete NAL of the prefix cases that follow (used by the C17 oracle)
            "dump" => format!("sps=[{}] pps=[{}]", self.ctx.sps().map(|s| format!("{:?}", s)).collect::<Vec<_>>().join(";"), self.ctx.pps().map(|p| format!("{:?}", p)).collect::<Vec<_>>().join(";")),
            "sps" => self.sps(&unhex(toks.get(1).copied().unwrap_or(""))),
            "pps" => self.pps(&unhex(toks.get(1).copied().unwrap_or(""))),
            "slice" => self.slice(unhex(toks[1])[0], &unhex(toks.get(2).copied().unwrap_or(""))),
            "bits" => self.bits(&toks[1..]),
            "nalbits" => self.nalbits(&toks[1..]),
            "nal" => self.nal(toks[1], toks[2] == "1"),
            "derived" => self.derived(&unhex(toks.get(1).copied().unwrap_or(""))),
            "ctx" => self.ctxops(&toks[1..]),
            "pt" => self.pic_timing(&unhex(toks[1]), &unhex(toks.get(2).copied().unwrap_or(""))),
            "bp" => self.buffering_period(&unhex(toks.get(1).copied().unwrap_or(""))),
            "t35" => self.t35(&unhex(toks.get(1).copied().unwrap_or(""))),
            "stream" => self.stream(&toks[1..]),
            "tbl" => crate::tables::row(toks[1], toks[2].parse().unwrap_or(0)),
            "hdr" => { let b: u8 = toks[1].parse().unwrap(); match NalHeader::new(b) { Ok(h) => format!("ok {} {} back={}", h.nal_ref_idc(), h.nal_unit_type().id(), u8::from(h)), Err(_) => "err".into() } }
            "unittype" => { let b: u8 = toks[1].parse().unwrap(); match h264_reader::nal::UnitType::for_id(b) { Ok(u) => format!("ok {}", u.id()), Err(_) => "err".into() } }
            "profile" => { let b: u8 = toks[1].parse().unwrap(); use h264_reader::nal::sps::{Profile, ProfileIdc}; format!("{}", Profile::from_profile_idc(ProfileIdc::from(b)).profile_idc()) }
            "level" => { let f: u8 = toks[1].parse().unwrap(); let l: u8 = toks[2].parse().unwrap(); use h264_reader::nal::sps::{Level, ConstraintFlags}; let lv = Level::from_constraint_flags_and_level_idc(ConstraintFlags::from(f), l); format!("{} {} {}", lv.level_idc(), if lv == Level::L1_b { "1b" } else { "-" }, if matches!(lv, Level::Unknown(_)) { "U" } else { "K" }) }
            "flags" => { let f: u8 = toks[1].parse().unwrap(); use h264_reader::nal::sps::ConstraintFlags; let c = ConstraintFlags::from(f); format!("{} {}{}{}{}{}{} {}", u8::from(c), c.flag0() as u8, c.flag1() as u8, c.flag2() as u8, c.flag3() as u8, c.flag4() as u8, c.flag5() as u8, c.reserved_zero_two_bits()) }
            "spsid" => { let v: u32 = toks[1].parse().unwrap(); match h264_reader::nal::sps::SeqParamSetId::from_u32(v) { Ok(i) => format!("ok {}", i.id()), Err(_) => "err".into() } }
            "ppsid" => { let v: u32 = toks[1].parse().unwrap(); match h264_reader::nal::pps::PicParamSetId::from_u32(v) { Ok(i) => format!("ok {}", i.id()), Err(_) => "err".into() } }
            _ => "bad-op".into(),
        }
    }

    /// annexb: ops `p:<hex>` (push) or `r` (reset); output per op: `[call call …]`, call = `<slice>,<slice>;<end>`
    fn annexb(&mut self, ops: &[&str]) -> String {
        let mut rd = AnnexBReader::for_fragment_handler(Rec::default());
        let mut out = vec![];
        for op in ops {
            if *op == "r" { rd.reset(); } else { rd.push(&unhex(&op[2..])); }
            let c = std::mem::take(&mut rd.fragment_handler_mut().calls);
            out.push(format!("[{}]", c.join(" ")));
        }
        out.join(" ")
    }

    /// rbsp <chunks> <complete> <skip> ops…: `f` fill_buf, `c<k>` consume min(k, last fill length), `r<n>` read n
    fn rbsp(&mut self, t: &[&str]) -> String {
        let chunks = chunks_of(t[0]); let complete = t[1] == "1"; let skip: usize = t[2].parse().unwrap();
        let refs: Vec<&[u8]> = chunks.iter().map(|c| &c[..]).collect();
        let nal = RefNal::new(refs[0], &refs[1..], complete);
        let mut rd = match skip { 0 => ByteReader::without_skip(nal.reader()), 1 => ByteReader::skipping_h264_header(nal.reader()), k => ByteReader::skipping_bytes(nal.reader(), std::num::NonZeroUsize::new(k).unwrap()) };
        let mut out = vec![]; let mut avail = 0usize;
        for op in &t[3..] {
            let (c, arg) = op.split_at(1);
            match c {
                "f" => match rd.fill_buf() { Ok(b) => { avail = b.len(); out.push(format!("ok:{}", hex(b))); } Err(e) => { out.push(format!("err:{}", kind(&e))); } },
                "c" => { let k = arg.parse::<usize>().unwrap().min(avail); rd.consume(k); avail -= k; out.push(format!("c{}", k)); }
                "r" => { let n: usize = arg.parse().unwrap(); let mut buf = vec![0u8; n]; match rd.read(&mut buf) { Ok(k) => { out.push(format!("ok:{}", hex(&buf[..k]))); avail = avail.saturating_sub(k); } Err(e) => out.push(format!("err:{}", kind(&e))) } }
                // std::io::Read::read_exact: whole buffer or an error (UnexpectedEof when the data ends first)
                "x" => { let n: usize = arg.parse().unwrap(); let mut buf = vec![0u8; n]; avail = 0; match std::io::Read::read_exact(&mut rd, &mut buf) { Ok(()) => out.push(format!("ok:{}", hex(&buf))), Err(e) => out.push(format!("err:{}", kind(&e))) } }
                // drain: fill_buf / consume(all) until the end or an error
                "D" => { let mut got = vec![]; let status; loop { match rd.fill_buf() { Ok(b) if b.is_empty() => { status = "end".to_string(); break; } Ok(b) => { let l = b.len(); got.extend_from_slice(b); rd.consume(l); } Err(e) => { status = kind(&e); break; } } if got.len() > 10_000_000 { status = "runaway".to_string(); break; } } avail = 0; out.push(format!("D:{}:{}", hex(&got), status)); }
                _ => out.push("bad".into()),
            }
        }
        out.join(" ")
    }

    fn decodenal(&mut self, h: &str) -> String {
        let d = if h == "-" { vec![] } else { unhex(h) };
        match h264_reader::rbsp::decode_nal(&d) {
            Ok(std::borrow::Cow::Borrowed(b)) => format!("B:{}", hex(b)),
            Ok(std::borrow::Cow::Owned(b)) => format!("O:{}", hex(&b)),
            Err(e) => format!("err:{}", kind(&e)),
        }
    }

    /// refnal <chunks> <complete> ops…: `f`, `c<k>`, `r<n>`, `h` header, `cl` clone into the spare slot, `sw` swap
    fn refnal(&mut self, t: &[&str]) -> String {
        let chunks = chunks_of(t[0]); let complete = t[1] == "1";
        let refs: Vec<&[u8]> = chunks.iter().map(|c| &c[..]).collect();
        let nal = RefNal::new(refs[0], &refs[1..], complete);
        let mut rd = nal.reader(); let mut spare = nal.reader();
        let mut out = vec![]; let mut avail = 0usize; let mut spare_avail = 0usize;
        for op in &t[2..] {
            if *op == "cl" { spare = rd.clone(); spare_avail = avail; out.push("cl".into()); continue; }
            if *op == "sw" { std::mem::swap(&mut rd, &mut spare); std::mem::swap(&mut avail, &mut spare_avail); out.push("sw".into()); continue; }
            if *op == "h" { out.push(match nal.header() { Ok(h) => format!("hdr:{},{}", h.nal_ref_idc(), h.nal_unit_type().id()), Err(_) => "hdr:err".into() }); continue; }
            let (c, arg) = op.split_at(1);
            match c {
                "f" => match rd.fill_buf() { Ok(b) => { avail = b.len(); out.push(format!("ok:{}", hex(b))); } Err(e) => { avail = 0; out.push(format!("err:{}", kind(&e))); } },
                "c" => { let k = arg.parse::<usize>().unwrap().min(avail); rd.consume(k); avail = 0; out.push(format!("c{}", k)); }
                "r" => { let n: usize = arg.parse().unwrap(); let mut buf = vec![0u8; n]; avail = 0; match rd.read(&mut buf) { Ok(k) => out.push(format!("ok:{}", hex(&buf[..k]))), Err(e) => out.push(format!("err:{}", kind(&e))) } }
                _ => out.push("bad".into()),
            }
        }
        out.join(" ")
    }

    /// refnalhuge <n> <log2> <complete> <extra> <mode>: a NAL of n chunks of 2^log2 bytes (all borrowing one buffer) plus a last
    /// chunk of `extra` bytes; drained by fill_buf/consume (mode f), by read() into a 64 KiB buffer (mode r) or alternating (mode m);
    /// every delivered byte is compared with the chunk pattern; output: total, how the data ended, two further calls
    fn refnalhuge(&mut self, t: &[&str]) -> String {
        let n: usize = t[0].parse().unwrap(); let lg: u32 = t[1].parse().unwrap(); let complete = t[2] == "1";
        let extra: usize = t[3].parse().unwrap(); let mode = t.get(4).copied().unwrap_or("f");
        if n == 0 || lg > 24 || n > 70000 { return "bad".into(); }
        let size = 1usize << lg;
        let buf: Vec<u8> = (0..size).map(|i| (i % 251) as u8).collect();
        let last: Vec<u8> = (0..extra).map(|i| (i % 251) as u8).collect();
        let mut tail: Vec<&[u8]> = vec![&buf[..]; n - 1]; if extra > 0 { tail.push(&last[..]); }
        let nal = RefNal::new(&buf[..], &tail[..], complete);
        let mut rd = nal.reader();
        let mut total: u64 = 0; let mut ok = true; let mut scratch = vec![0u8; 65536]; let mut turn = 0u64;
        let expect = |pos: u64| -> u8 { let whole = (n as u64) * (size as u64); if pos < whole { ((pos % size as u64) % 251) as u8 } else { ((pos - whole) % 251) as u8 } };
        let end;
        loop {
            turn += 1;
            let use_read = mode == "r" || (mode == "m" && turn % 3 == 0);
            if use_read {
                match rd.read(&mut scratch) { Ok(0) => { end = "eof".to_string(); break; } Ok(k) => { if scratch[0] != expect(total) || scratch[k - 1] != expect(total + k as u64 - 1) { ok = false; } total += k as u64; } Err(e) => { end = kind(&e); break; } }
            } else {
                match rd.fill_buf() { Ok(b) if b.is_empty() => { end = "eof".to_string(); break; } Ok(b) => { let k = b.len(); if b[0] != expect(total) || b[k - 1] != expect(total + k as u64 - 1) || (k == size && total % size as u64 == 0 && total < (n as u64) * (size as u64) && b != &buf[..]) { ok = false; } total += k as u64; rd.consume(k); } Err(e) => { end = kind(&e); break; } }
            }
            if total > (1u64 << 40) { end = "runaway".to_string(); break; }
        }
        let again = |rd: &mut h264_reader::nal::RefNalReader<'_>| -> String { match rd.fill_buf() { Ok(b) if b.is_empty() => "eof".into(), Ok(b) => format!("data{}", b.len()), Err(e) => kind(&e) } };
        let a1 = again(&mut rd); let mut one = [0u8; 1]; let a2 = match rd.read(&mut one) { Ok(0) => "eof".to_string(), Ok(k) => format!("data{}", k), Err(e) => kind(&e) };
        format!("total={} bytes={} end={} again={},{}", total, if ok { "ok" } else { "WRONG" }, end, a1, a2)
    }

    /// acc steps `<slice>,<slice>;<end>;<answer B|I>`; output per step: `-` (no invocation) or `<head>|<tail chunks>|<complete>`
    fn acc(&mut self, steps: &[&str]) -> String {
        let st: std::rc::Rc<std::cell::RefCell<(char, Vec<String>)>> = std::rc::Rc::new(std::cell::RefCell::new(('B', vec![])));
        let s2 = st.clone();
        let mut acc = NalAccumulator::new(move |nal: RefNal<'_>| {
            let mut s = s2.borrow_mut();
            let mut rd = nal.reader();
            let head = rd.fill_buf().map(|b| b.to_vec()).unwrap_or_default(); let hl = head.len(); rd.consume(hl);
            let mut tail = vec![];
            loop { match rd.fill_buf() { Ok(b) if !b.is_empty() => { let l = b.len(); tail.push(hex(b)); rd.consume(l); } _ => break } }
            s.1.push(format!("{}|{}|{}", hex(&head), tail.join(","), nal.is_complete() as u8));
            if s.0 == 'I' { NalInterest::Ignore } else { NalInterest::Buffer }
        });
        let mut out = vec![];
        for step in steps {
            let parts: Vec<&str> = step.split(';').collect();
            if parts.len() != 3 { out.push("bad".to_string()); continue; }
            let bufs: Vec<Vec<u8>> = if parts[0].is_empty() { vec![] } else { parts[0].split(',').map(unhex).collect() };
            st.borrow_mut().0 = if parts[2] == "I" { 'I' } else { 'B' };
            let before = st.borrow().1.len();
            let refs: Vec<&[u8]> = bufs.iter().map(|b| &b[..]).collect();
            acc.nal_fragment(&refs, parts[1] == "1");
            let s = st.borrow();
            out.push(if s.1.len() > before { s.1[before].clone() } else { "-".to_string() });
        }
        out.join(" ")
    }

    pub fn sei_messages<R: BufRead + Clone>(&self, rd: R) -> Vec<String> { self.sei_messages_scratch(rd, vec![0xAAu8; 7]) }
    /// the same with the given (possibly dirty, possibly large) scratch storage left behind by an earlier use
    pub fn sei_messages_scratch<R: BufRead + Clone>(&self, rd: R, scratch: Vec<u8>) -> Vec<String> {
        let mut scratch = scratch; // dirty scratch storage on purpose (C17: reuse must not matter)
        let mut sr = SeiReader::from_rbsp_bytes(rd, &mut scratch);
        let mut out = vec![]; let mut extra = 0;
        loop {
            match sr.next() {
                Ok(Some(m)) => { let t = format!("{:?}", m.payload_type); out.push(format!("msg:{}:{}", self.sei_types.id_of(&t), hex(m.payload))); }
                Ok(None) => { out.push("end".into()); extra += 1; }
                Err(e) => { out.push(format!("err:{}", bre(&e))); extra += 1; }
            }
            if extra >= 4 || out.len() > 100000 { break; }
        }
        out
    }

    /// sei <chunks of the whole NAL incl. header> <complete>: all messages, then three more calls
    fn sei(&mut self, chunks: &str, complete: bool) -> String {
        let chunks = chunks_of(chunks);
        let refs: Vec<&[u8]> = chunks.iter().map(|c| &c[..]).collect();
        let nal = RefNal::new(refs[0], &refs[1..], complete);
        self.sei_messages(nal.rbsp_bytes()).join(" ")
    }

    fn avcc(&mut self, d: &[u8]) -> String {
        match AvcDecoderConfigurationRecord::try_from(d) {
            Ok(a) => {
                let nsps = a.num_of_sequence_parameter_sets();
                let fields = format!("v={} n={} prof={} compat={} level={} lsm1={}", a.configuration_version(), nsps,
                    u8::from(a.avc_profile_indication()), u8::from(a.profile_compatibility()), level_str(a.avc_level_indication()), a.length_size_minus_one());
                let sps = render_avcc_iter(&mut a.sequence_parameter_sets(), 40);
                let pps = render_avcc_iter(&mut a.picture_parameter_sets(), 300);
                let ctx = match a.create_context() {
                    Ok(c) => format!("Ok(sps=[{}] pps=[{}])", c.sps().map(|s| format!("{:?}", s)).collect::<Vec<_>>().join(";"), c.pps().map(|p| format!("{:?}", p)).collect::<Vec<_>>().join(";")),
                    Err(e) => { let t = format!("{:?}", e); format!("Err({})", t.split(|c| c == '(' || c == ' ' || c == '{').next().unwrap()) }
                };
                format!("Ok {} sps={} pps={} ctx={}", fields, sps, pps, ctx)
            }
            Err(e) => {
                let t = format!("{:?}", e);
                if t.starts_with("NotEnoughData") { let n = nums(&t); format!("NotEnoughData({},{})", n[0], n[1]) }
                else if t.starts_with("Unsupported") { let n = nums(&t); format!("UnsupportedVersion({})", n[0]) }
                else { t }
            }
        }
    }

    fn sps(&mut self, d: &[u8]) -> String {
        match SeqParameterSet::from_bits(BitReader::new(d)) {
            Ok(s) => { let t = format!("Ok({:?})", s); { let _ = self.ctx.put_seq_param_set(s); }; t }
            Err(e) => err_show(&e),
        }
    }
    fn pps(&mut self, d: &[u8]) -> String {
        match PicParameterSet::from_bits(&self.ctx, BitReader::new(d)) {
            Ok(p) => { let t = format!("Ok({:?})", p); { let _ = self.ctx.put_pic_param_set(p); }; t }
            Err(e) => err_show(&e),
        }
    }
    fn slice_on<R: BufRead + Clone>(&self, hdr: NalHeader, mut br: BitReader<R>) -> String {
        let r = SliceHeader::from_bits(&self.ctx, &mut br, hdr).map(|(hd, s, p)| {
            let same_s = self.ctx.sps_by_id(s.seq_parameter_set_id).map(|x| std::ptr::eq(x, s)).unwrap_or(false);
            let same_p = self.ctx.pps_by_id(p.pic_parameter_set_id).map(|x| std::ptr::eq(x, p)).unwrap_or(false);
            (format!("{:?}", hd), s.seq_parameter_set_id.id(), p.pic_parameter_set_id.id(), same_s && same_p)
        });
        match r {
            Ok((s, sid, pid, same)) => {
                let mut left = 0u32; let mut next = String::new();
                loop { match br.read_bool("x") { Ok(b) => { if left < 16 { next.push(if b { '1' } else { '0' }); } left += 1; } Err(_) => break } }
                format!("Ok({}) sps={} pps={} ctxrefs={} left={} next={}", s, sid, pid, same, left, next)
            }
            Err(e) => err_class(&e).into(),
        }
    }
    fn slice(&mut self, hdr: u8, d: &[u8]) -> String {
        match NalHeader::new(hdr) { Ok(h) => self.slice_on(h, BitReader::new(d)), Err(_) => "hdr:err".into() }
    }

    /// bits <hex|-> ops…: ue se b u<n> i<n> more skip<n> finish seifinish
    fn bits(&mut self, t: &[&str]) -> String {
        let d = if t[0] == "-" { vec![] } else { unhex(t[0]) };
        Self::bit_ops(BitReader::new(&d[..]), &t[1..])
    }
    /// nalbits <chunks of a NAL incl. header> <complete> ops…: the same operations on `RefNal::rbsp_bits()`
    fn nalbits(&mut self, t: &[&str]) -> String {
        let chunks = chunks_of(t[0]);
        let refs: Vec<&[u8]> = chunks.iter().map(|c| &c[..]).collect();
        let nal = RefNal::new(refs[0], &refs[1..], t[1] == "1");
        Self::bit_ops(nal.rbsp_bits(), &t[2..])
    }
    fn bit_ops<R: BufRead + Clone>(reader: BitReader<R>, ops: &[&str]) -> String {
        let mut br = Some(reader);
        let mut out = vec![];
        for op in ops {
            let r = match br.as_mut() { None => { out.push("-".to_string()); continue; } Some(r) => r };
            let res: Result<String, BitReaderError> = if *op == "ue" { r.read_ue("f").map(|v| v.to_string()) }
                else if *op == "se" { r.read_se("f").map(|v| v.to_string()) }
                else if *op == "b" { r.read_bool("f").map(|v| v.to_string()) }
                else if *op == "more" { r.has_more_rbsp_data("f").map(|v| v.to_string()) }
                else if *op == "finish" { let x = br.take().unwrap().finish_rbsp().map(|_| "ok".to_string()); match x { Ok(s) => { out.push(s); } Err(e) => { out.push(bre(&e)); } } continue; }
                else if *op == "seifinish" { let x = br.take().unwrap().finish_sei_payload().map(|_| "ok".to_string()); match x { Ok(s) => { out.push(s); } Err(e) => { out.push(bre(&e)); } } continue; }
                else if *op == "rd" {
                    // the byte-aligned borrow of the underlying reader: consume one byte through it
                    let o = match r.reader() { None => "rd:unaligned".to_string(), Some(u) => { let n = match u.fill_buf() { Ok(b) => if b.is_empty() { 0 } else { 1 }, Err(_) => 9 }; if n == 1 { u.consume(1); } match n { 0 => "rd:0".into(), 1 => "rd:1".into(), _ => "rd:err".into() } } };
                    // an error of the underlying reader ends the program, like an error of any read
                    if o == "rd:err" { br = None; }
                    out.push(o); continue; }
                else if let Some(n) = op.strip_prefix("skip") { r.skip(n.parse().unwrap(), "f").map(|_| "ok".to_string()) }
                else if let Some(n) = op.strip_prefix('u') { let n: u32 = n.parse().unwrap(); if n <= 32 { r.read::<u32>(n, "f").map(|v| v.to_string()) } else { r.read::<u64>(n, "f").map(|v| v.to_string()) } }
                else { Ok("bad".to_string()) };
            match res { Ok(s) => out.push(s), Err(e) => { out.push(bre(&e)); br = None; } }
        }
        out.join(" ")
    }

    /// nal <chunks> <complete>: parse a (possibly partial, chunked) NAL by its type against the current context:
    /// SPS (7) / PPS (8) are parsed and stored, slices (1, 5) give the header, SEI (6) the message list
    pub fn nal_on(&mut self, nal: &RefNal<'_>) -> String {
        let hdr = match nal.header() { Ok(h) => h, Err(_) => return "hdr:err".into() };
        match hdr.nal_unit_type().id() {
            7 => match SeqParameterSet::from_bits(nal.rbsp_bits()) { Ok(s) => { let t = format!("sps:Ok({:?})", s); { let _ = self.ctx.put_seq_param_set(s); }; t } Err(e) => format!("sps:{}", err_class(&e)) },
            8 => match PicParameterSet::from_bits(&self.ctx, nal.rbsp_bits()) { Ok(p) => { let t = format!("pps:Ok({:?})", p); { let _ = self.ctx.put_pic_param_set(p); }; t } Err(e) => format!("pps:{}", err_class(&e)) },
            1 | 5 => format!("slice:{}", self.slice_on(hdr, nal.rbsp_bits())),
            6 => format!("sei:{}", self.sei_messages(nal.rbsp_bytes()).join(" ")),
            t => format!("other:{}", t),
        }
    }
    /// the same dispatch on the NAL's RBSP un-escaped by the reference routine of this harness and read from one plain buffer
    /// (no `ByteReader` involved); `None` when the NAL contains a forbidden sequence
    pub fn nal_plain(&mut self, nal: &[u8]) -> Option<String> {
        if nal.is_empty() { return None; }
        let hdr = match NalHeader::new(nal[0]) { Ok(h) => h, Err(_) => return Some("hdr:err".into()) };
        let (rbsp, valid) = unescape(&nal[1..]); if !valid { return None; }
        Some(match hdr.nal_unit_type().id() {
            7 => match SeqParameterSet::from_bits(BitReader::new(&rbsp[..])) { Ok(s) => { let t = format!("sps:Ok({:?})", s); { let _ = self.ctx.put_seq_param_set(s); }; t } Err(e) => format!("sps:{}", err_class(&e)) },
            8 => match PicParameterSet::from_bits(&self.ctx, BitReader::new(&rbsp[..])) { Ok(p) => { let t = format!("pps:Ok({:?})", p); { let _ = self.ctx.put_pic_param_set(p); }; t } Err(e) => format!("pps:{}", err_class(&e)) },
            1 | 5 => format!("slice:{}", self.slice_on(hdr, BitReader::new(&rbsp[..]))),
            6 => format!("sei:{}", self.sei_messages(&rbsp[..]).join(" ")),
            t => format!("other:{}", t),
        })
    }
    fn nal(&mut self, chunks: &str, complete: bool) -> String {
        let chunks = chunks_of(chunks);
        let refs: Vec<&[u8]> = chunks.iter().map(|c| &c[..]).collect();
        let nal = RefNal::new(refs[0], &refs[1..], complete);
        self.nal_on(&nal)
    }

    /// derived <sps rbsp hex>: the helper values of an accepted SPS
    fn derived(&mut self, d: &[u8]) -> String {
        match SeqParameterSet::from_bits(BitReader::new(d)) {
            Ok(s) => {
                let dims = match s.pixel_dimensions() { Ok((w, h)) => format!("Ok({},{})", w, h), Err(_) => "Err".to_string() };
                let fps = match (s.fps(), s.vui_parameters.as_ref().and_then(|v| v.timing_info.as_ref())) {
                    (None, _) => "None".to_string(),
                    (Some(f), Some(ti)) => { let expect = (ti.time_scale as f64) / (2.0 * (ti.num_units_in_tick as f64)); format!("Some({},{},{})", ti.time_scale, ti.num_units_in_tick, if f == expect || (f.is_nan() && expect.is_nan()) { "exact" } else { "differs" }) }
                    (Some(_), None) => "Some-without-timing".to_string(),
                };
                let codec = format!("{}", s.rfc6381());
                format!("Ok dims={} fps={} codec={} mbs={},{},{} profile={} level={} log2fn={}", dims, fps, codec, s.pic_width_in_mbs(), s.pic_height_in_map_units(), s.pic_size_in_map_units(), s.profile().profile_idc(), level_str(s.level()), s.log2_max_frame_num())
            }
            Err(e) => err_class(&e).into(),
        }
    }

    fn scratch_ctx(&self) -> &Context {
        self.scratch.get_or_init(|| { let mut c = Context::new();
            for id in 0..32u64 { let mut w = W::default(); w.u(8, 66).u(8, 0).u(8, 30).ue(id).ue(0).ue(2).ue(1).b(false).ue(3).ue(3).b(true).b(false).b(false).b(false); let d = w.trail();
                if let Ok(s) = SeqParameterSet::from_bits(BitReader::new(&d[..])) { { let _ = c.put_seq_param_set(s); }; } }
            c })
    }
    /// ctx ops: `s<id>:<tag>` put an SPS with that id (tag = level_idc), `p<id>:<spsid>:<tag>` put a PPS (tag = num_ref_idx_l0_default_minus1),
    /// `gs<id>` / `gp<id>` lookups, `is` / `ip` iterations
    fn ctxops(&mut self, ops: &[&str]) -> String {
        let mut ctx = Context::new(); let mut out = vec![];
        for op in ops {
            if let Some(x) = op.strip_prefix("gs") { let id: u32 = x.parse().unwrap(); out.push(match h264_reader::nal::sps::SeqParamSetId::from_u32(id) { Ok(i) => match ctx.sps_by_id(i) { Some(s) => format!("some({},{})", s.seq_parameter_set_id.id(), s.level_idc), None => "none".into() }, Err(_) => "badid".into() }); }
            else if let Some(x) = op.strip_prefix("gp") { let id: u32 = x.parse().unwrap(); out.push(match h264_reader::nal::pps::PicParamSetId::from_u32(id) { Ok(i) => match ctx.pps_by_id(i) { Some(p) => format!("some({},{})", p.pic_parameter_set_id.id(), p.num_ref_idx_l0_default_active_minus1), None => "none".into() }, Err(_) => "badid".into() }); }
            else if *op == "is" { out.push(format!("[{}]", ctx.sps().map(|s| format!("{},{}", s.seq_parameter_set_id.id(), s.level_idc)).collect::<Vec<_>>().join(";"))); }
            else if *op == "ip" { out.push(format!("[{}]", ctx.pps().map(|p| format!("{},{}", p.pic_parameter_set_id.id(), p.num_ref_idx_l0_default_active_minus1)).collect::<Vec<_>>().join(";"))); }
            else if let Some(x) = op.strip_prefix('s') {
                let v: Vec<u64> = x.split(':').map(|y| y.parse().unwrap()).collect();
                let mut w = W::default(); w.u(8, 66).u(8, 0).u(8, v[1]).ue(v[0]).ue(0).ue(0).ue(0).ue(0).b(false).ue(0).ue(0).b(true).b(false).b(false).b(false);
                let d = w.trail();
                out.push(match SeqParameterSet::from_bits(BitReader::new(&d[..])) { Ok(s) => { { let _ = ctx.put_seq_param_set(s); }; "ok".into() } Err(_) => "rej".into() });
            }
            else if let Some(x) = op.strip_prefix('p') {
                let v: Vec<u64> = x.split(':').map(|y| y.parse().unwrap()).collect();
                let mut w = W::default(); w.ue(v[0]).ue(v[1]).b(false).b(false).ue(0).ue(v[2]).ue(0).b(false).u(2, 0).se(0).se(0).se(0).b(false).b(false).b(false);
                let d = w.trail();
                // the PPS value is built by parsing against a scratch context that holds an SPS under every id: `put_pic_param_set` is a
                // plain store and must not depend on what the SPS store of *this* context holds
                let scratch = self.scratch_ctx();
                out.push(match PicParameterSet::from_bits(scratch, BitReader::new(&d[..])) { Ok(p) => { { let _ = ctx.put_pic_param_set(p); }; "ok".into() } Err(_) => "rej".into() });
            }
            else { out.push("bad".into()); }
        }
        out.join(" ")
    }

    fn with_msg<T>(&self, ty: u32, payload: &[u8], f: impl FnOnce(&h264_reader::nal::sei::SeiMessage<'_>) -> T) -> Option<T> {
        // build a real SeiMessage of the required type by running the reader over a one-message RBSP
        let mut d = vec![]; let mut t = ty; while t >= 255 { d.push(0xff); t -= 255; } d.push(t as u8);
        let mut l = payload.len(); while l >= 255 { d.push(0xff); l -= 255; } d.push(l as u8); d.extend_from_slice(payload); d.push(0x80);
        let mut scratch = vec![];
        let mut sr = SeiReader::from_rbsp_bytes(&d[..], &mut scratch);
        match sr.next() { Ok(Some(m)) => Some(f(&m)), _ => None }
    }

    /// pt <sps rbsp hex> <payload hex>
    fn pic_timing(&mut self, sps: &[u8], payload: &[u8]) -> String {
        let s = match SeqParameterSet::from_bits(BitReader::new(sps)) { Ok(s) => s, Err(_) => return "sps:Err".into() };
        self.with_msg(1, payload, |m| match h264_reader::nal::sei::pic_timing::PicTiming::read(&s, m) {
            // (the Debug text, then the public accessors seconds():minutes():hours() of every clock timestamp that is present)
            Ok(p) => { let acc = match &p.pic_struct { None => String::new(), Some(ps) => format!(" smh=[{}]", ps.clock_timestamps.iter().map(|c| match c { None => "-".to_string(), Some(c) => format!("{}:{}:{}", c.smh.seconds(), c.smh.minutes(), c.smh.hours()) }).collect::<Vec<_>>().join(",")) };
                format!("Ok({:?}){}", p, acc) }
            Err(_) => "Err".to_string() }).unwrap_or_else(|| "nomsg".into())
    }
    /// bp <payload hex> (against the current context)
    fn buffering_period(&mut self, payload: &[u8]) -> String {
        self.with_msg(0, payload, |m| match h264_reader::nal::sei::buffering_period::BufferingPeriod::read(&self.ctx, m) { Ok(p) => format!("Ok({:?})", p), Err(_) => "Err".to_string() }).unwrap_or_else(|| "nomsg".into())
    }
    fn t35(&mut self, payload: &[u8]) -> String {
        use h264_reader::nal::sei::user_data_registered_itu_t_t35::{ItuTT35, ItuTT35Error};
        let names = self.t35_names.clone();
        self.with_msg(4, payload, |m| match ItuTT35::read(m) {
            Ok((ItuTT35::Extended(e), rest)) => format!("Ok(ext:{},{})", e, hex(rest)),
            Ok((c, rest)) => { let n = format!("{:?}", c); let hits: Vec<usize> = names.iter().enumerate().filter(|(_, x)| **x == n).map(|(i, _)| i).collect();
                if hits.len() == 1 { format!("Ok(code:{},{})", hits[0], hex(rest)) } else { format!("Ok(?{},{})", n, hex(rest)) } }
            Err(ItuTT35Error::NotEnoughData { expected, actual }) => format!("NotEnoughData({},{})", expected, actual),
        }).unwrap_or_else(|| "nomsg".into())
    }

    /// stream <policy> ops `p:<hex>` / `r`: the accumulating Annex B reader with a handler that parses NALs against a
    /// context it maintains. Policy `B`: always Buffer, parse each complete NAL. Policy `H` (as in the crate's bench):
    /// for slice NALs try the header on every invocation, Buffer while it would block, Ignore as soon as it parses or
    /// fails; other NALs are buffered until complete. Output: one item per parse: `<bytes shown>=<result>`
    fn stream(&mut self, ops: &[&str]) -> String {
        let policy = ops[0].to_string(); let ops = &ops[1..];
        let local = std::rc::Rc::new(std::cell::RefCell::new(Runner { scratch: Default::default(), ctx: Context::new(), sei_types: self.sei_types.clone(), t35_names: self.t35_names.clone() }));
        let out: std::rc::Rc<std::cell::RefCell<Vec<String>>> = Default::default();
        let o2 = out.clone(); let l2 = local.clone();
        {
            let handler = move |nal: RefNal<'_>| {
                let ty = nal.header().map(|h| h.nal_unit_type().id()).unwrap_or(255);
                let shown = || { let mut bytes = vec![]; let mut rd = nal.reader(); loop { match rd.fill_buf() { Ok(b) if !b.is_empty() => { let l = b.len(); bytes.extend_from_slice(b); rd.consume(l); } _ => break } } bytes };
                if policy == "H" && (ty == 1 || ty == 5) {
                    let res = l2.borrow_mut().nal_on(&nal);
                    if res.ends_with("WouldBlock") { return NalInterest::Buffer; }
                    o2.borrow_mut().push(format!("{}={}", hex(&shown()), res.replace(' ', "_")));
                    return NalInterest::Ignore;
                }
                if nal.is_complete() {
                    let res = l2.borrow_mut().nal_on(&nal);
                    o2.borrow_mut().push(format!("{}={}", hex(&shown()), res.replace(' ', "_")));
                }
                NalInterest::Buffer
            };
            let mut rd = AnnexBReader::accumulate(handler);
            for op in ops { if *op == "r" { rd.reset(); } else { rd.push(&unhex(&op[2..])); } }
        }
        let v = out.borrow(); v.join(" ")
    }
}
