//! h264harness: generators, in-process runner of the real library, implementation-side oracles, graph extraction
mod util;
mod run;
mod gen;
mod oracle;
mod tables;
mod reenc;
mod consts;
use std::io::{BufRead, Write};

/// counting allocator: bytes requested and the largest single request since the last reset (C03: no entry point may
/// request heap memory beyond a fixed multiple of its input)
pub mod alloc_count {
    use std::alloc::{GlobalAlloc, Layout, System};
    use std::sync::atomic::{AtomicUsize, Ordering::Relaxed};
    pub struct Counting;
    pub static TOTAL: AtomicUsize = AtomicUsize::new(0);
    pub static MAXREQ: AtomicUsize = AtomicUsize::new(0);
    unsafe impl GlobalAlloc for Counting {
        unsafe fn alloc(&self, l: Layout) -> *mut u8 { TOTAL.fetch_add(l.size(), Relaxed); MAXREQ.fetch_max(l.size(), Relaxed); System.alloc(l) }
        unsafe fn dealloc(&self, p: *mut u8, l: Layout) { System.dealloc(p, l) }
        unsafe fn alloc_zeroed(&self, l: Layout) -> *mut u8 { TOTAL.fetch_add(l.size(), Relaxed); MAXREQ.fetch_max(l.size(), Relaxed); System.alloc_zeroed(l) }
        unsafe fn realloc(&self, p: *mut u8, l: Layout, n: usize) -> *mut u8 { TOTAL.fetch_add(n.saturating_sub(l.size()), Relaxed); MAXREQ.fetch_max(n, Relaxed); System.realloc(p, l, n) }
    }
    pub fn reset() { TOTAL.store(0, Relaxed); MAXREQ.store(0, Relaxed); }
    pub fn get() -> (usize, usize) { (MAXREQ.load(Relaxed), TOTAL.load(Relaxed)) }
}
#[global_allocator]
static ALLOC: alloc_count::Counting = alloc_count::Counting;

fn main() {
    std::panic::set_hook(Box::new(|_| {}));
    let args: Vec<String> = std::env::args().collect();
    let cmd = args.get(1).map(|s| s.as_str()).unwrap_or("");
    let stdout = std::io::stdout(); let mut out = std::io::BufWriter::with_capacity(1 << 16, stdout.lock());
    match cmd {
        "gen" => {
            let stream = &args[2]; let n: usize = args[3].parse().unwrap(); let seed: u64 = args[4].parse().unwrap();
            gen::generate(stream, n, seed, &mut out);
        }
        "run" => {
            let mut r = run::Runner::new();
            let stdin = std::io::stdin();
            for line in stdin.lock().lines() { let line = line.unwrap(); writeln!(out, "{}", r.run_line(&line)).unwrap(); }
        }
        "oracle" => {
            let prop = &args[2];
            let mut o = oracle::Oracle::new();
            let stdin = std::io::stdin();
            for line in stdin.lock().lines() { let line = line.unwrap(); writeln!(out, "{}", o.check(prop, &line)).unwrap(); }
        }
        "tables" => tables::emit(&mut out),
        // the literal dictionary of the current source tree (the committed baseline is this output for the pinned tree)
        "consts" => { write!(out, "{}", consts::baseline_text()).unwrap(); }
        _ => { eprintln!("usage: h264harness gen <stream> <n> <seed> | run | oracle <prop> | tables"); std::process::exit(2); }
    }
    out.flush().unwrap();
}
