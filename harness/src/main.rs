//! h264harness: generators, in-process runner of the real library, implementation-side oracles, graph extraction
mod util;
mod run;
mod gen;
mod oracle;
mod tables;
use std::io::{BufRead, Write};

fn main() {
    std::panic::set_hook(Box::new(|_| {}));
    let args: Vec<String> = std::env::args().collect();
    let cmd = args.get(1).map(|s| s.as_str()).unwrap_or("");
    let stdout = std::io::stdout(); let mut out = std::io::BufWriter::with_capacity(1 << 16, stdout.lock());
    match cmd {
        "gen" => {
            let stream = &args[2]; let n: usize = args[3].parse().unwrap(); let seed: u64 = args[4].parse().unwrap();
            gen::generate(stream, n, seed, &mut out);
        }
        "run" => {
            let mut r = run::Runner::new();
            let stdin = std::io::stdin();
            for line in stdin.lock().lines() { let line = line.unwrap(); writeln!(out, "{}", r.run_line(&line)).unwrap(); }
        }
        "oracle" => {
            let prop = &args[2];
            let mut o = oracle::Oracle::new();
            let stdin = std::io::stdin();
            for line in stdin.lock().lines() { let line = line.unwrap(); writeln!(out, "{}", o.check(prop, &line)).unwrap(); }
        }
        "tables" => tables::emit(&mut out),
        _ => { eprintln!("usage: h264harness gen <stream> <n> <seed> | run | oracle <prop> | tables"); std::process::exit(2); }
    }
    out.flush().unwrap();
}
