//! Re-encoders written from the H.264 syntax tables (7.3.2.1, 7.3.2.2, E.1), taking only the public fields of the
//! structures the parsers return. They serve the converse halves of C04 / C05: whatever bit string a parser accepts
//! must be the encoding of what it returned (scaling lists, rectangles aside).
use crate::util::W;
use h264_reader::nal::pps::{PicParameterSet, SliceGroup, SliceGroupChangeType};
use h264_reader::nal::sps::*;

fn aspect_idc(a: &AspectRatioInfo) -> (u64, Option<(u16, u16)>) {
    use AspectRatioInfo::*;
    match a {
        Unspecified => (0, None), Ratio1_1 => (1, None), Ratio12_11 => (2, None), Ratio10_11 => (3, None), Ratio16_11 => (4, None),
        Ratio40_33 => (5, None), Ratio24_11 => (6, None), Ratio20_11 => (7, None), Ratio32_11 => (8, None), Ratio80_33 => (9, None),
        Ratio18_11 => (10, None), Ratio15_11 => (11, None), Ratio64_33 => (12, None), Ratio160_99 => (13, None), Ratio4_3 => (14, None),
        Ratio3_2 => (15, None), Ratio2_1 => (16, None), Reserved(v) => (*v as u64, None), Extended(w, h) => (255, Some((*w, *h))),
    }
}
fn video_format_id(v: &VideoFormat) -> u64 {
    match v { VideoFormat::Component => 0, VideoFormat::PAL => 1, VideoFormat::NTSC => 2, VideoFormat::SECAM => 3, VideoFormat::MAC => 4, VideoFormat::Unspecified => 5, VideoFormat::Reserved(x) => *x as u64 }
}
fn hrd(w: &mut W, h: &HrdParameters) -> Option<()> {
    if h.cpb_specs.is_empty() { return None; }
    w.ue(h.cpb_specs.len() as u64 - 1).u(4, h.bit_rate_scale as u64).u(4, h.cpb_size_scale as u64);
    for c in &h.cpb_specs { w.ue(c.bit_rate_value_minus1 as u64).ue(c.cpb_size_value_minus1 as u64).b(c.cbr_flag); }
    w.u(5, h.initial_cpb_removal_delay_length_minus1 as u64).u(5, h.cpb_removal_delay_length_minus1 as u64)
        .u(5, h.dpb_output_delay_length_minus1 as u64).u(5, h.time_offset_length as u64);
    Some(())
}

/// `None`: the value carries explicit scaling lists (outside the converse claim) or cannot be written at all
pub fn enc_sps(s: &SeqParameterSet) -> Option<Vec<bool>> {
    let mut w = W::default();
    w.u(8, u8::from(s.profile_idc) as u64).u(8, u8::from(s.constraint_flags) as u64).u(8, s.level_idc as u64).ue(s.seq_parameter_set_id.id() as u64);
    if s.profile_idc.has_chroma_info() {
        let c = &s.chroma_info;
        let idc = match c.chroma_format { ChromaFormat::Monochrome => 0, ChromaFormat::YUV420 => 1, ChromaFormat::YUV422 => 2, ChromaFormat::YUV444 => 3, ChromaFormat::Invalid(v) => v as u64 };
        w.ue(idc);
        if idc == 3 { w.b(c.separate_colour_plane_flag); }
        w.ue(c.bit_depth_luma_minus8 as u64).ue(c.bit_depth_chroma_minus8 as u64).b(c.qpprime_y_zero_transform_bypass_flag);
        if c.scaling_matrix.is_some() { return None; }
        w.b(false);
    }
    w.ue(s.log2_max_frame_num_minus4 as u64);
    match &s.pic_order_cnt {
        PicOrderCntType::TypeZero { log2_max_pic_order_cnt_lsb_minus4 } => { w.ue(0).ue(*log2_max_pic_order_cnt_lsb_minus4 as u64); }
        PicOrderCntType::TypeOne { delta_pic_order_always_zero_flag, offset_for_non_ref_pic, offset_for_top_to_bottom_field, offsets_for_ref_frame } => {
            w.ue(1).b(*delta_pic_order_always_zero_flag).se(*offset_for_non_ref_pic as i64).se(*offset_for_top_to_bottom_field as i64).ue(offsets_for_ref_frame.len() as u64);
            for o in offsets_for_ref_frame { w.se(*o as i64); }
        }
        PicOrderCntType::TypeTwo => { w.ue(2); }
    }
    w.ue(s.max_num_ref_frames as u64).b(s.gaps_in_frame_num_value_allowed_flag).ue(s.pic_width_in_mbs_minus1 as u64).ue(s.pic_height_in_map_units_minus1 as u64);
    match s.frame_mbs_flags { FrameMbsFlags::Frames => { w.b(true); } FrameMbsFlags::Fields { mb_adaptive_frame_field_flag } => { w.b(false).b(mb_adaptive_frame_field_flag); } }
    w.b(s.direct_8x8_inference_flag);
    match &s.frame_cropping { None => { w.b(false); } Some(c) => { w.b(true).ue(c.left_offset as u64).ue(c.right_offset as u64).ue(c.top_offset as u64).ue(c.bottom_offset as u64); } }
    match &s.vui_parameters {
        None => { w.b(false); }
        Some(v) => {
            w.b(true);
            match &v.aspect_ratio_info { None => { w.b(false); } Some(a) => { let (idc, ext) = aspect_idc(a); w.b(true).u(8, idc); if let Some((x, y)) = ext { w.u(16, x as u64).u(16, y as u64); } } }
            match v.overscan_appropriate { OverscanAppropriate::Unspecified => { w.b(false); } OverscanAppropriate::Appropriate => { w.b(true).b(true); } OverscanAppropriate::Inappropriate => { w.b(true).b(false); } }
            match &v.video_signal_type { None => { w.b(false); } Some(t) => { w.b(true).u(3, video_format_id(&t.video_format)).b(t.video_full_range_flag);
                match &t.colour_description { None => { w.b(false); } Some(c) => { w.b(true).u(8, c.colour_primaries as u64).u(8, c.transfer_characteristics as u64).u(8, c.matrix_coefficients as u64); } } } }
            match &v.chroma_loc_info { None => { w.b(false); } Some(c) => { w.b(true).ue(c.chroma_sample_loc_type_top_field as u64).ue(c.chroma_sample_loc_type_bottom_field as u64); } }
            match &v.timing_info { None => { w.b(false); } Some(t) => { w.b(true).u(32, t.num_units_in_tick as u64).u(32, t.time_scale as u64).b(t.fixed_frame_rate_flag); } }
            match &v.nal_hrd_parameters { None => { w.b(false); } Some(h) => { w.b(true); hrd(&mut w, h)?; } }
            match &v.vcl_hrd_parameters { None => { w.b(false); } Some(h) => { w.b(true); hrd(&mut w, h)?; } }
            if v.nal_hrd_parameters.is_some() || v.vcl_hrd_parameters.is_some() { w.b(v.low_delay_hrd_flag?); }
            w.b(v.pic_struct_present_flag);
            match &v.bitstream_restrictions { None => { w.b(false); } Some(b) => { w.b(true).b(b.motion_vectors_over_pic_boundaries_flag).ue(b.max_bytes_per_pic_denom as u64).ue(b.max_bits_per_mb_denom as u64)
                .ue(b.log2_max_mv_length_horizontal as u64).ue(b.log2_max_mv_length_vertical as u64).ue(b.max_num_reorder_frames as u64).ue(b.max_dec_frame_buffering as u64); } }
        }
    }
    Some(w.bits)
}

/// `None`: rectangles (private fields) or explicit picture scaling lists — outside the converse claim
pub fn enc_pps(p: &PicParameterSet) -> Option<Vec<bool>> {
    let mut w = W::default();
    w.ue(p.pic_parameter_set_id.id() as u64).ue(p.seq_parameter_set_id.id() as u64).b(p.entropy_coding_mode_flag).b(p.bottom_field_pic_order_in_frame_present_flag);
    match &p.slice_groups {
        None => { w.ue(0); }
        Some(SliceGroup::Interleaved { run_length_minus1 }) => { if run_length_minus1.len() < 2 { return None; } w.ue(run_length_minus1.len() as u64 - 1).ue(0); for x in run_length_minus1 { w.ue(*x as u64); } }
        Some(SliceGroup::Dispersed { num_slice_groups_minus1 }) => { w.ue(*num_slice_groups_minus1 as u64).ue(1); }
        Some(SliceGroup::ForegroundAndLeftover { .. }) => return None,
        Some(SliceGroup::Changing { change_type, num_slice_groups_minus1, slice_group_change_direction_flag, slice_group_change_rate_minus1 }) => {
            let t = match change_type { SliceGroupChangeType::BoxOut => 3, SliceGroupChangeType::RasterScan => 4, SliceGroupChangeType::WipeOut => 5 };
            w.ue(*num_slice_groups_minus1 as u64).ue(t).b(*slice_group_change_direction_flag).ue(*slice_group_change_rate_minus1 as u64);
        }
        Some(SliceGroup::ExplicitAssignment { num_slice_groups_minus1, slice_group_id }) => {
            if slice_group_id.is_empty() { return None; }
            // Ceil(Log2(num_slice_groups_minus1 + 1)) bits per id
            let n = *num_slice_groups_minus1 as u64 + 1; let mut bits = 0u32; while (1u64 << bits) < n { bits += 1; }
            w.ue(*num_slice_groups_minus1 as u64).ue(6).ue(slice_group_id.len() as u64 - 1);
            for x in slice_group_id { w.u(bits, *x as u64); }
        }
    }
    w.ue(p.num_ref_idx_l0_default_active_minus1 as u64).ue(p.num_ref_idx_l1_default_active_minus1 as u64).b(p.weighted_pred_flag).u(2, p.weighted_bipred_idc as u64)
        .se(p.pic_init_qp_minus26 as i64).se(p.pic_init_qs_minus26 as i64).se(p.chroma_qp_index_offset as i64)
        .b(p.deblocking_filter_control_present_flag).b(p.constrained_intra_pred_flag).b(p.redundant_pic_cnt_present_flag);
    if let Some(e) = &p.extension {
        w.b(e.transform_8x8_mode_flag);
        if e.pic_scaling_matrix.is_some() { return None; }
        w.b(false).se(e.second_chroma_qp_index_offset as i64);
    }
    Some(w.bits)
}

/// the RBSP `d` is exactly `bits` followed by rbsp_trailing_bits (a 1 and zeros to the byte boundary) and any number of
/// trailing zero bytes
pub fn is_encoding_of(d: &[u8], bits: &[bool]) -> Result<(), String> {
    let mut all: Vec<bool> = Vec::with_capacity(d.len() * 8);
    for b in d { for i in (0..8).rev() { all.push((b >> i) & 1 == 1); } }
    while all.last() == Some(&false) { all.pop(); }
    if all.pop() != Some(true) { return Err("no stop bit".into()); }
    if all.len() != bits.len() { return Err(format!("the accepted string has {} bits before the stop bit, the re-encoding of the result {}", all.len(), bits.len())); }
    match all.iter().zip(bits.iter()).position(|(a, b)| a != b) { Some(i) => Err(format!("bit {} differs", i)), None => Ok(()) }
}

// ---- slice_header() of 7.3.3 (with 7.3.3.1 - 7.3.3.3), from the public fields of the returned `SliceHeader` and of the
// ---- activated parameter sets. The header does not keep slice_alpha_c0_offset_div2 / slice_beta_offset_div2, so the
// ---- re-encoding stops after disable_deblocking_filter_idc and must be a *prefix* of the accepted bits; an empty
// ---- modification list has two codings (flag 0, or flag 1 + terminator), so up to four variants are returned.
use h264_reader::nal::slice::*;
use h264_reader::nal::NalHeader;

fn mods(w: &mut W, ops: &[ModificationOfPicNums], long_form: bool) {
    if ops.is_empty() && !long_form { w.b(false); return; }
    w.b(true);
    for o in ops { match o { ModificationOfPicNums::Subtract(v) => { w.ue(0).ue(*v as u64); } ModificationOfPicNums::Add(v) => { w.ue(1).ue(*v as u64); } ModificationOfPicNums::LongTermRef(v) => { w.ue(2).ue(*v as u64); } } }
    w.ue(3);
}

/// `None`: a shape the standard's syntax cannot produce from these values (then nothing is claimed)
pub fn enc_slice_variants(h: &SliceHeader, sps: &SeqParameterSet, pps: &PicParameterSet, hdr: NalHeader) -> Result<Vec<Vec<bool>>, String> {
    let fam = match h.slice_type.family { SliceFamily::P => 0u64, SliceFamily::B => 1, SliceFamily::I => 2, SliceFamily::SP => 3, SliceFamily::SI => 4 };
    let excl = matches!(h.slice_type.exclusive, SliceExclusive::Exclusive);
    let (is_p, is_b, is_i, is_sp, is_si) = (fam == 0, fam == 1, fam == 2, fam == 3, fam == 4);
    let mut out = vec![];
    for variant in 0..4u8 {
        let (lf0, lf1) = (variant & 1 == 1, variant & 2 == 2);
        let mut w = W::default();
        w.ue(h.first_mb_in_slice as u64).ue(fam + if excl { 5 } else { 0 }).ue(pps.pic_parameter_set_id.id() as u64);
        if sps.chroma_info.separate_colour_plane_flag { w.u(2, match h.colour_plane.as_ref().ok_or("colour_plane absent although the SPS has separate colour planes")? { ColourPlane::Y => 0, ColourPlane::Cb => 1, ColourPlane::Cr => 2 }); }
        w.u(sps.log2_max_frame_num() as u32, h.frame_num as u64);
        let field = !matches!(h.field_pic, FieldPic::Frame);
        if let FrameMbsFlags::Fields { .. } = sps.frame_mbs_flags { match &h.field_pic { FieldPic::Frame => { w.b(false); } FieldPic::Field(Field::Top) => { w.b(true).b(false); } FieldPic::Field(Field::Bottom) => { w.b(true).b(true); } } } else if field { return Err("a field picture although the SPS is frame_mbs_only".into()); }
        if hdr.nal_unit_type().id() == 5 { w.ue(h.idr_pic_id.ok_or("idr_pic_id absent in an IDR slice")? as u64); }
        let bottom_coded = pps.bottom_field_pic_order_in_frame_present_flag && !field;
        match (&sps.pic_order_cnt, h.pic_order_cnt_lsb.as_ref()) {
            (PicOrderCntType::TypeZero { log2_max_pic_order_cnt_lsb_minus4 }, Some(PicOrderCountLsb::Frame(l))) if !bottom_coded => { w.u(*log2_max_pic_order_cnt_lsb_minus4 as u32 + 4, *l as u64); }
            (PicOrderCntType::TypeZero { log2_max_pic_order_cnt_lsb_minus4 }, Some(PicOrderCountLsb::FieldsAbsolute { pic_order_cnt_lsb, delta_pic_order_cnt_bottom })) if bottom_coded => { w.u(*log2_max_pic_order_cnt_lsb_minus4 as u32 + 4, *pic_order_cnt_lsb as u64).se(*delta_pic_order_cnt_bottom as i64); }
            (PicOrderCntType::TypeOne { delta_pic_order_always_zero_flag: false, .. }, Some(PicOrderCountLsb::FieldsDelta(d))) => { w.se(d[0] as i64); if bottom_coded { w.se(d[1] as i64); } else if d[1] != 0 { return Err("delta_pic_order_cnt[1] non-zero although it is not coded".into()); } }
            (PicOrderCntType::TypeOne { delta_pic_order_always_zero_flag: true, .. }, None) | (PicOrderCntType::TypeTwo, None) => {}
            // (the library reports the inferred zero deltas of delta_pic_order_always_zero_flag = 1 as FieldsDelta([0, 0]): nothing is coded)
            (PicOrderCntType::TypeOne { delta_pic_order_always_zero_flag: true, .. }, Some(PicOrderCountLsb::FieldsDelta([0, 0]))) => {}
            _ => return Err("pic_order_cnt_lsb has a form that the POC type / field flags of the activated parameter sets do not produce".into()),
        }
        if pps.redundant_pic_cnt_present_flag { w.ue(h.redundant_pic_cnt.ok_or("redundant_pic_cnt absent although the PPS announces it")? as u64); }
        if is_b { w.b(h.direct_spatial_mv_pred_flag.ok_or("direct_spatial_mv_pred_flag absent in a B slice")?); }
        let mut l0 = pps.num_ref_idx_l0_default_active_minus1;
        if is_p || is_sp || is_b {
            match h.num_ref_idx_active.as_ref() { None => { w.b(false); }
                Some(NumRefIdxActive::P { num_ref_idx_l0_active_minus1 }) if !is_b => { w.b(true).ue(*num_ref_idx_l0_active_minus1 as u64); l0 = *num_ref_idx_l0_active_minus1; }
                Some(NumRefIdxActive::B { num_ref_idx_l0_active_minus1, num_ref_idx_l1_active_minus1 }) if is_b => { w.b(true).ue(*num_ref_idx_l0_active_minus1 as u64).ue(*num_ref_idx_l1_active_minus1 as u64); l0 = *num_ref_idx_l0_active_minus1; }
                _ => return Err("num_ref_idx_active has the wrong form for the slice type".into()) }
        }
        match h.ref_pic_list_modification.as_ref().ok_or("ref_pic_list_modification absent")? {
            RefPicListModifications::I if is_i || is_si => {}
            RefPicListModifications::P { ref_pic_list_modification_l0 } if is_p || is_sp => mods(&mut w, ref_pic_list_modification_l0, lf0),
            RefPicListModifications::B { ref_pic_list_modification_l0, ref_pic_list_modification_l1 } if is_b => { mods(&mut w, ref_pic_list_modification_l0, lf0); mods(&mut w, ref_pic_list_modification_l1, lf1); }
            _ => return Err("ref_pic_list_modification has the wrong form for the slice type".into()),
        }
        let pwt_present = (pps.weighted_pred_flag && (is_p || is_sp)) || (pps.weighted_bipred_idc == 1 && is_b);
        if pwt_present {
            if is_b { return Ok(vec![]); }   // (explicit weighted prediction in B slices: the library reports it as unsupported)
            let t = h.pred_weight_table.as_ref().ok_or("pred_weight_table absent although the PPS and slice type require it")?;
            let chroma = !sps.chroma_info.separate_colour_plane_flag && !matches!(sps.chroma_info.chroma_format, ChromaFormat::Monochrome);
            w.ue(t.luma_log2_weight_denom as u64);
            if chroma { w.ue(t.chroma_log2_weight_denom.ok_or("chroma_log2_weight_denom absent although ChromaArrayType != 0")? as u64); } else if t.chroma_log2_weight_denom.is_some() { return Err("chroma_log2_weight_denom present although ChromaArrayType == 0 (monochrome or separate colour planes)".into()); }
            if t.luma_weights.len() != l0 as usize + 1 { return Err("number of luma weight entries is not num_ref_idx_l0_active_minus1 + 1".into()); }
            if chroma && t.chroma_weights.len() != l0 as usize + 1 { return Err("number of chroma weight entries is not num_ref_idx_l0_active_minus1 + 1".into()); }
            for i in 0..=l0 as usize {
                match &t.luma_weights[i] { Some(p) => { w.b(true).se(p.weight as i64).se(p.offset as i64); } None => { w.b(false); } }
                if chroma { let c = &t.chroma_weights[i]; if c.is_empty() { w.b(false); } else if c.len() == 2 { w.b(true); for p in c { w.se(p.weight as i64).se(p.offset as i64); } } else { return Err("a chroma weight entry with a number of components other than 0 or 2".into()); } }
            }
        } else if h.pred_weight_table.is_some() { return Err("pred_weight_table present although the PPS / slice type do not call for it".into()); }
        if hdr.nal_ref_idc() != 0 {
            match h.dec_ref_pic_marking.as_ref().ok_or("dec_ref_pic_marking absent although nal_ref_idc != 0")? {
                DecRefPicMarking::Idr { no_output_of_prior_pics_flag, long_term_reference_flag } if hdr.nal_unit_type().id() == 5 => { w.b(*no_output_of_prior_pics_flag).b(*long_term_reference_flag); }
                DecRefPicMarking::SlidingWindow if hdr.nal_unit_type().id() != 5 => { w.b(false); }
                DecRefPicMarking::Adaptive(ops) if hdr.nal_unit_type().id() != 5 => { w.b(true);
                    for o in ops { use MemoryManagementControlOperation::*; match o {
                        ShortTermUnusedForRef { difference_of_pic_nums_minus1 } => { w.ue(1).ue(*difference_of_pic_nums_minus1 as u64); }
                        LongTermUnusedForRef { long_term_pic_num } => { w.ue(2).ue(*long_term_pic_num as u64); }
                        ShortTermUsedForLongTerm { difference_of_pic_nums_minus1, long_term_frame_idx } => { w.ue(3).ue(*difference_of_pic_nums_minus1 as u64).ue(*long_term_frame_idx as u64); }
                        MaxUsedLongTermFrameRef { max_long_term_frame_idx_plus1 } => { w.ue(4).ue(*max_long_term_frame_idx_plus1 as u64); }
                        AllRefPicturesUnused => { w.ue(5); }
                        CurrentUsedForLongTerm { long_term_frame_idx } => { w.ue(6).ue(*long_term_frame_idx as u64); } } }
                    w.ue(0); }
                _ => return Err("dec_ref_pic_marking has the wrong form for the NAL type".into()),
            }
        } else if h.dec_ref_pic_marking.is_some() { return Err("dec_ref_pic_marking present although nal_ref_idc == 0".into()); }
        if pps.entropy_coding_mode_flag && !is_i && !is_si { w.ue(h.cabac_init_idc.ok_or("cabac_init_idc absent although CABAC is on and the slice is not I/SI")? as u64); } else if h.cabac_init_idc.is_some() { return Err("cabac_init_idc present although it is not coded".into()); }
        w.se(h.slice_qp_delta as i64);
        if is_sp || is_si {
            if is_sp { w.b(h.sp_for_switch_flag.ok_or("sp_for_switch_flag absent in an SP slice")?); }
            w.se(h.slice_qs.ok_or("slice_qs absent in an SP/SI slice")? as i64 - 26 - pps.pic_init_qs_minus26 as i64);
        } else if h.slice_qs.is_some() || h.sp_for_switch_flag.is_some() { return Err("slice_qs / sp_for_switch_flag present in a slice that is not SP/SI".into()); }
        if pps.deblocking_filter_control_present_flag { w.ue(h.disable_deblocking_filter_idc as u64); } else if h.disable_deblocking_filter_idc != 0 { return Err("disable_deblocking_filter_idc non-zero although the PPS has no deblocking control".into()); }
        out.push(w.bits);
    }
    Ok(out)
}
