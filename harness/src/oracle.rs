//! Implementation-side oracles: each evaluates the property itself on the real code for one case line, using only
//! reference computations written from the standard (never the Lean model). Output: `ok` or `FAIL <what>`.
use crate::run::*;
use crate::util::*;
use h264_reader::annexb::AnnexBReader;

pub struct Oracle { run: Runner, full_nal: Vec<u8>, /// C19: what has been accepted since the last reset (id -> rendering of the parameter set)
    sps_seen: std::collections::BTreeMap<u8, String>, pps_seen: std::collections::BTreeMap<u8, String>,
    /// C06 / C16: the parameter sets accepted since the last reset, kept as values outside any `Context` (last writer wins)
    sps_objs: std::collections::BTreeMap<u8, h264_reader::nal::sps::SeqParameterSet>, pps_objs: std::collections::BTreeMap<u8, h264_reader::nal::pps::PicParameterSet> }

/// Annex B segmentation of a whole stream followed by end of stream: bytes of each unit and an end marker `E`
pub fn reference_segmentation(s: &[u8]) -> Vec<String> {
    let n = s.len(); let mut i = 0; let mut inside = false; let mut out = vec![];
    while i < n {
        if !inside {
            if i + 2 < n && s[i] == 0 && s[i + 1] == 0 && s[i + 2] == 1 { inside = true; i += 3; } else { i += 1; }
        } else if i + 2 < n && s[i] == 0 && s[i + 1] == 0 && s[i + 2] == 0 { out.push("E".to_string()); inside = false; i += 1; }
        else if i + 2 < n && s[i] == 0 && s[i + 1] == 0 && s[i + 2] == 1 { out.push("E".to_string()); i += 3; }
        else { out.push(format!("{:02x}", s[i])); i += 1; }
    }
    if inside { out.push("E".to_string()); }
    out
}

/// is a unit open after these bytes (no end of stream yet)?
pub fn inside_at_end(s: &[u8]) -> bool {
    let n = s.len(); let mut i = 0; let mut inside = false;
    while i < n {
        if i + 2 < n && s[i] == 0 && s[i + 1] == 0 && s[i + 2] == 1 { inside = true; i += 3; }
        else if inside && i + 2 < n && s[i] == 0 && s[i + 1] == 0 && s[i + 2] == 0 { inside = false; i += 1; }
        else { i += 1; }
    }
    inside
}

fn calls_of(ops: &[&str]) -> Vec<Vec<String>> {
    let mut rd = AnnexBReader::for_fragment_handler(Rec::default());
    let mut out = vec![];
    for op in ops { if *op == "r" { rd.reset(); } else { rd.push(&unhex(&op[2..])); } out.push(std::mem::take(&mut rd.fragment_handler_mut().calls)); }
    out
}
fn events(calls: &[String]) -> Vec<String> {
    let mut ev = vec![];
    for c in calls { let mut it = c.split(';'); let bufs = it.next().unwrap(); let end = it.next().unwrap();
        for b in bufs.split(',') { for k in 0..b.len() / 2 { ev.push(b[2 * k..2 * k + 2].to_string()); } }
        if end == "1" { ev.push("E".to_string()); } }
    ev
}

impl Oracle {
    pub fn new() -> Oracle { Oracle { run: Runner::new(), full_nal: vec![], sps_seen: Default::default(), pps_seen: Default::default(), sps_objs: Default::default(), pps_objs: Default::default() } }
    pub fn check(&mut self, prop: &str, line: &str) -> String {
        let r = std::panic::catch_unwind(std::panic::AssertUnwindSafe(|| self.check_inner(prop, line)));
        match r { Ok(s) => s, Err(_) => "FAIL panic".to_string() }
    }
    fn check_inner(&mut self, prop: &str, line: &str) -> String {
        let toks: Vec<&str> = line.split_whitespace().collect();
        if toks.is_empty() { return "ok".into(); }
        match (prop, toks[0]) {
            (_, "tbl") => {
                // tables of the code against the oracle's own transcription of the standard's tables
                let i: u64 = toks[2].parse().unwrap_or(0);
                let got = crate::tables::row(toks[1], i);
                match crate::tables::expected_row(toks[1], i) { Some(w) if w != got => format!("FAIL table {} at {}: the code gives [{}], the standard's table gives [{}]", toks[1], i, got, w), _ => "ok".into() }
            }
            ("C01", "annexb") => self.c01(&toks[1..]),
            ("C18", "annexb") => self.c18(&toks[1..]),
            ("C02", "rbsp") => self.c02_rbsp(&toks[1..], line),
            ("C02", "decodenal") => self.c02_decodenal(toks.get(1).copied().unwrap_or("-"), line),
            ("C15", "refnal") => self.c15(&toks[1..], line),
            ("C15", "refnalhuge") | ("C03", "refnalhuge") => {
                // every byte once and in order (total and pattern), then end of data for ever (complete) or WouldBlock for ever (incomplete)
                let got = self.run.run_line(line);
                let n: u64 = toks[1].parse().unwrap_or(0); let lg: u32 = toks[2].parse().unwrap_or(0); let extra: u64 = toks[4].parse().unwrap_or(0);
                let e = if toks[3] == "1" { "eof" } else { "WouldBlock" };
                let want = format!("total={} bytes=ok end={} again={},{}", n * (1u64 << lg) + extra, e, e, e);
                if got == want { "ok".into() } else { format!("FAIL a NAL of {} chunks of 2^{} bytes (+{}) read as [{}], expected [{}]", n, lg, extra, got, want) }
            }
            ("C08", "acc") => self.c08(&toks[1..], line),
            ("C07", "bits") | ("C14", "bits") => self.bits(&toks[1..], line, None),
            ("C07", "nalbits") | ("C14", "nalbits") => {
                // reference: un-escape the NAL (independent of the library), then the same bit-level reference decoder
                let chunks = chunks_of(toks[1]); let all: Vec<u8> = chunks.concat();
                let (rbsp, valid) = unescape(&all[1..]);
                if !valid { let _ = self.run.run_line(line); return "ok".into(); }
                let fin = if toks[2] == "1" { "Eof" } else { "WouldBlock" };
                let mut t2: Vec<String> = vec![if rbsp.is_empty() { "-".to_string() } else { hex(&rbsp) }]; t2.extend(toks[3..].iter().map(|x| x.to_string()));
                let t2r: Vec<&str> = t2.iter().map(|x| x.as_str()).collect();
                self.bits(&t2r, line, Some(fin))
            }
            ("C04", "sps") | ("C04", "derived") => {
                // converse half: an accepted bit string is the encoding of the returned structure (scaling lists aside)
                let d = unhex(toks.get(1).copied().unwrap_or(""));
                let verdict = match h264_reader::nal::sps::SeqParameterSet::from_bits(h264_reader::rbsp::BitReader::new(&d[..])) {
                    Ok(s) => match crate::reenc::enc_sps(&s) { Some(bits) => match crate::reenc::is_encoding_of(&d, &bits) { Ok(()) => "ok".to_string(), Err(e) => format!("FAIL the parser accepted this SPS but the returned structure does not re-encode to it: {}", e) }, None => "ok".into() },
                    Err(_) => "ok".into() };
                let _ = self.run.run_line(line); verdict
            }
            ("C05", "pps") => {
                let d = unhex(toks.get(1).copied().unwrap_or(""));
                let verdict = match h264_reader::nal::pps::PicParameterSet::from_bits(&self.run.ctx, h264_reader::rbsp::BitReader::new(&d[..])) {
                    Ok(p) => match crate::reenc::enc_pps(&p) { Some(bits) => match crate::reenc::is_encoding_of(&d, &bits) { Ok(()) => "ok".to_string(), Err(e) => format!("FAIL the parser accepted this PPS but the returned structure does not re-encode to it: {}", e) }, None => "ok".into() },
                    Err(_) => "ok".into() };
                let _ = self.run.run_line(line); verdict
            }
            ("C04", "nal") | ("C05", "nal") => {
                // a complete parameter-set NAL, however chunked, parses exactly like its reference-un-escaped RBSP read from one plain buffer
                let chunks = chunks_of(toks[1]); let all: Vec<u8> = chunks.concat();
                let got = self.run.run_line(line);
                if toks[2] == "1" && !all.is_empty() && matches!(all[0] & 0x1f, 7 | 8) && all[0] & 0x80 == 0 {
                    if let Some(want) = self.run.nal_plain(&all) { if got != want { return format!("FAIL parameter-set NAL in {} chunk(s) gave [{}] but its RBSP read from a plain buffer gives [{}]", chunks.len(), &got[..got.len().min(300)], &want[..want.len().min(300)]); } }
                }
                "ok".into()
            }
            ("C06", "nal") => {
                // a complete slice NAL, however chunked, parses exactly like its RBSP (un-escaped by the reference routine of
                // this harness) read from one contiguous buffer: same header, same position on the first bit of slice data
                let chunks = chunks_of(toks[1]); let all: Vec<u8> = chunks.concat();
                let got = self.run.run_line(line);
                if toks[2] == "1" && !all.is_empty() && matches!(all[0] & 0x1f, 1 | 5) && all[0] & 0x80 == 0 {
                    let (rbsp, valid) = unescape(&all[1..]);
                    if valid && !rbsp.is_empty() {
                        let want = format!("slice:{}", self.run.run_line(&format!("slice {:02x} {}", all[0], hex(&rbsp))));
                        if got != want { return format!("FAIL slice NAL in {} chunk(s) gave [{}] but its RBSP read contiguously gives [{}]", chunks.len(), &got[..got.len().min(300)], &want[..want.len().min(300)]); }
                    }
                }
                "ok".into()
            }
            // slice headers against the history-built context must equal slice headers against a context freshly assembled from
            // the independently kept latest parameter sets (all SPS first, then all PPS): stores do not disturb each other and a
            // parser always sees the latest definition of the ids it follows
            ("C06", "reset") | ("C16", "reset") => { self.sps_objs.clear(); self.pps_objs.clear(); let _ = self.run.run_line(line); "ok".into() }
            ("C06", "sps") | ("C06", "pps") => { self.track_params(&toks); let _ = self.run.run_line(line); "ok".into() }
            ("C06", "slice") => {
                let got = self.run.run_line(line);
                let v = self.slice_fresh_ctx(line, &got);
                if v != "ok" { return v; }
                // converse half on the implementation: the accepted bits start with the standard-order encoding of what was returned
                let hb = unhex(toks.get(1).copied().unwrap_or("00")); let d = unhex(toks.get(2).copied().unwrap_or(""));
                if let Ok(nh) = h264_reader::nal::NalHeader::new(hb.first().copied().unwrap_or(0)) {
                    let mut br = h264_reader::rbsp::BitReader::new(&d[..]);
                    if let Ok((h, sps, pps)) = h264_reader::nal::slice::SliceHeader::from_bits(&self.run.ctx, &mut br, nh) {
                        let vars = match crate::reenc::enc_slice_variants(&h, sps, pps, nh) { Ok(v) => v, Err(why) => return format!("FAIL the parser returned a slice header that 7.3.3 cannot produce with the activated parameter sets: {}: {}", why, &got[..got.len().min(300)]) };
                        if !vars.is_empty() {
                            let mut all: Vec<bool> = Vec::with_capacity(d.len() * 8); for b in &d { for i in (0..8).rev() { all.push((b >> i) & 1 == 1); } }
                            if !vars.iter().any(|v| all.len() >= v.len() && all[..v.len()] == v[..]) {
                                let first = vars[0].iter().zip(all.iter()).position(|(a, b)| a != b).unwrap_or(vars[0].len().min(all.len()));
                                return format!("FAIL the parser accepted this slice header but what it returned does not re-encode (7.3.3) to the bits it was given: first difference at bit {} of {} header bits: {}", first, vars[0].len(), &got[..got.len().min(300)]);
                            }
                        }
                    }
                }
                "ok".into()
            }
            ("C11", "pt") => self.c11_pt(&toks, line),
            ("C11", "bp") => self.c11_bp(&toks, line),
            ("C11", "t35") => {
                // T.35: one country-code byte, or ff + one extension byte; the remainder starts right behind them
                let d = unhex(toks.get(1).copied().unwrap_or(""));
                let got = self.run.run_line(line);
                let want_rest = |k: usize| hex(&d[k..]);
                if d.is_empty() { if got.starts_with("NotEnoughData(1,0)") { "ok".into() } else { format!("FAIL empty T.35 payload: {}", got) } }
                else if d[0] == 0xff {
                    if d.len() < 2 { if got.starts_with("NotEnoughData(2,1)") { "ok".into() } else { format!("FAIL ff alone must be refused as too short: {}", got) } }
                    else { let w = format!("Ok(ext:{},{})", d[1], want_rest(2)); if got == w { "ok".into() } else { format!("FAIL extended country code: got [{}] expected [{}]", got, w) } }
                } else if !(got.starts_with("Ok(") && got.ends_with(&format!(",{})", want_rest(1)))) { format!("FAIL the remainder must start behind the country code byte: {}", got) }
                else if d[0] <= 0xc4 && !got.starts_with(&format!("Ok(code:{},", d[0])) { format!("FAIL country code {:#x} is assigned by T.35 but came back as {}", d[0], got) }
                else { "ok".into() }
            }
            ("C13", "derived") => self.c13(line),
            ("C16", "sps") | ("C16", "pps") => { self.track_params(&toks); self.c16(&toks, line) }
            ("C16", "slice") => {
                // (the fresh-context comparison first: it needs the context as it was before this line, which c16 does not change for slices)
                let mut probe = Runner::new(); probe.ctx = self.ref_ctx(); let want = probe.run_line(line);
                let v = self.c16(&toks, line);
                if v != "ok" { v } else { let got = self.run.run_line(line); if got == want { "ok".into() } else { format!("FAIL the parameter sets returned with the slice header are not the latest accepted ones: history-built context gives [{}], a context assembled afresh from the latest accepted parameter sets gives [{}]", &got[..got.len().min(400)], &want[..want.len().min(400)]) } }
            }
            ("C09", "avcc") | ("C19", "avcc") | ("C20", "avcc") | ("C12", "avcc") => self.c09(toks.get(1).copied().unwrap_or(""), line),
            ("C12", "stream") => self.c12(&toks[1..], line),
            ("C17", "full") => { self.full_nal = unhex(toks.get(1).copied().unwrap_or("")); "ok".into() }
            ("C17", "nal") => self.c17(&toks, line),
            ("C19", "ctx") => self.c19(&toks[1..], line),
            // the context as a last-writer-wins map over everything accepted since the last reset, kept here independently
            ("C19", "reset") => { self.sps_seen.clear(); self.pps_seen.clear(); let _ = self.run.run_line(line); "ok".into() }
            ("C19", "sps") => { let d = unhex(toks.get(1).copied().unwrap_or(""));
                if let Ok(s) = h264_reader::nal::sps::SeqParameterSet::from_bits(h264_reader::rbsp::BitReader::new(&d[..])) { self.sps_seen.insert(s.seq_parameter_set_id.id(), format!("{:?}", s)); }
                let _ = self.run.run_line(line); "ok".into() }
            ("C19", "pps") => { let d = unhex(toks.get(1).copied().unwrap_or(""));
                if let Ok(p) = h264_reader::nal::pps::PicParameterSet::from_bits(&self.run.ctx, h264_reader::rbsp::BitReader::new(&d[..])) { self.pps_seen.insert(p.pic_parameter_set_id.id(), format!("{:?}", p)); }
                let _ = self.run.run_line(line); "ok".into() }
            ("C19", "dump") => { let got = self.run.run_line(line);
                let want = format!("sps=[{}] pps=[{}]", self.sps_seen.values().cloned().collect::<Vec<_>>().join(";"), self.pps_seen.values().cloned().collect::<Vec<_>>().join(";"));
                if got == want { "ok".into() } else { format!("FAIL the context holds [{}] but the parameter sets accepted since the last reset are [{}]", &got[..got.len().min(600)], &want[..want.len().min(600)]) } }
            ("C20", "derived") => self.c13(line),
            ("C10", "sei") => self.c10(&toks[1..], line),
            ("C20", _) | ("C13", "profile") | ("C13", "level") => self.c20(&toks),
            // (a dump line has no input: what is allocated there is the harness's own rendering of the context)
            ("C03", "dump") => { let o = self.run.run_line(line); if o == "PANIC" { "FAIL panic".into() } else { "ok".into() } }
            ("C03", "avcc") if Self::avcc_iterators_end(&unhex(toks.get(1).copied().unwrap_or(""))).is_some() => Self::avcc_iterators_end(&unhex(toks.get(1).copied().unwrap_or(""))).unwrap(),
            ("C03", _) => {
                // (the constant covers the parameter-set tables: 256 slots of a PPS, 32 of an SPS - fixed, input-independent sizes)
                // input size in bytes (hex digits / 2); the whole case execution (library + the harness's own parsing and
                // rendering, which is linear in input + output) must stay within a fixed multiple of it
                let len = input_len(line);
                crate::alloc_count::reset();
                let o = self.run.run_line(line);
                let (maxreq, total) = crate::alloc_count::get();
                if o == "PANIC" { "FAIL panic".into() }
                else if maxreq > 65536 + 1024 * len { format!("FAIL a single heap request of {} bytes for an input of {} bytes (bound 65536 + 1024*len)", maxreq, len) }
                else if total > (1 << 20) + 16384 * len + 64 * o.len() { format!("FAIL {} bytes of heap requested in total for an input of {} bytes", total, len) }
                else { "ok".into() }
            }
            _ => { let _ = self.run.run_line(line); "ok".into() }
        }
    }

    /// per reset-delimited portion: events == reference segmentation of the bytes pushed in that portion, and equal to
    /// what one single push of those bytes delivers; the open tail (no final reset) must agree with a single push
    fn c01(&mut self, ops: &[&str]) -> String {
        let calls = calls_of(ops);
        let mut i = 0;
        while i < ops.len() {
            let mut j = i; let mut data = vec![]; let mut ev = vec![];
            while j < ops.len() && ops[j] != "r" { data.extend(unhex(&ops[j][2..])); ev.extend(events(&calls[j])); j += 1; }
            let h = format!("p:{}", hex(&data));
            if j < ops.len() {
                ev.extend(events(&calls[j]));
                let spec = reference_segmentation(&data);
                if ev != spec { return format!("FAIL portion at op {}: delivered [{}] but the Annex B segmentation is [{}]", i, ev.join(" "), spec.join(" ")); }
                let single = calls_of(&[&h, "r"]); let mut e1 = events(&single[0]); e1.extend(events(&single[1]));
                if ev != e1 { return format!("FAIL portion at op {}: chunked [{}] vs single push [{}]", i, ev.join(" "), e1.join(" ")); }
            } else {
                let single = calls_of(&[&h]); let e1 = events(&single[0]);
                if ev != e1 { return format!("FAIL open tail at op {}: chunked [{}] vs single push [{}]", i, ev.join(" "), e1.join(" ")); }
            }
            i = j + 1;
        }
        "ok".into()
    }

    fn c18(&mut self, ops: &[&str]) -> String {
        let calls = calls_of(ops);
        let mut open = false; // a unit has received a call and not been ended
        for (k, cs) in calls.iter().enumerate() {
            for c in cs {
                let mut it = c.split(';'); let bufs = it.next().unwrap(); let end = it.next().unwrap() == "1";
                let slices: Vec<&str> = if bufs.is_empty() { vec![] } else { bufs.split(',').collect() };
                if slices.iter().any(|s| s.is_empty()) { return format!("FAIL op {}: empty slice in call {}", k, c); }
                if slices.is_empty() && !end { return format!("FAIL op {}: call without slices that does not end a unit", k); }
                open = !end;
            }
            if ops[k] == "r" {
                if open { return format!("FAIL op {}: unit still open after reset", k); }
                // after a reset the reader behaves like a fresh one on the remaining operations
                let rest = calls_of(&ops[k + 1..]);
                if rest[..] != calls[k + 1..] { return format!("FAIL op {}: behaviour after reset differs from a fresh reader", k); }
                // a second reset right away makes no call
                if k + 1 < ops.len() && ops[k + 1] == "r" && !calls[k + 1].is_empty() { return format!("FAIL op {}: reset with no open unit made a call", k + 1); }
            }
        }
        // reset outside a unit makes no call: the reference scan tells whether a unit is open
        let mut data = vec![]; let mut ends = 0usize;
        for (k, op) in ops.iter().enumerate() {
            ends += calls[k].iter().filter(|c| c.ends_with(";1")).count();
            if *op == "r" {
                // every unit of the reference segmentation of this portion is ended exactly once
                let want = reference_segmentation(&data).iter().filter(|e| *e == "E").count();
                if ends != want { return format!("FAIL portion ending at op {}: {} end-of-unit calls for {} units", k, ends, want); }
                ends = 0;
                if !inside_at_end(&data) && !calls[k].is_empty() { return format!("FAIL op {}: reset outside a unit made a call", k); }
                if inside_at_end(&data) && calls[k].iter().filter(|c| c.ends_with(";1")).count() != 1 { return format!("FAIL op {}: reset inside a unit did not end it exactly once", k); }
                data.clear();
            } else { data.extend(unhex(&op[2..])); }
        }
        "ok".into()
    }

    fn c02_rbsp(&mut self, t: &[&str], line: &str) -> String {
        let obs = self.run.run_line(line);
        if obs == "PANIC" { return "FAIL panic".into(); }
        let chunks = chunks_of(t[0]); let complete = t[1] == "1"; let skip: usize = t[2].parse().unwrap();
        let all: Vec<u8> = chunks.concat();
        let payload = if skip <= all.len() { &all[skip..] } else { &[][..] };
        let (exp, valid) = unescape(payload);
        // what the op program took out of the reader: reads, and consumed prefixes of fills
        let mut delivered: Vec<u8> = vec![]; let mut last_fill: Vec<u8> = vec![]; let mut saw_invalid = false;
        for (op, o) in t[3..].iter().zip(obs.split(' ')) {
            if let Some(h) = o.strip_prefix("ok:") {
                let b = unhex(h);
                if op.starts_with('f') {
                    // a fill must show a prefix of what remains
                    if !exp[delivered.len().min(exp.len())..].starts_with(&b) { return format!("FAIL fill_buf returned {} which is not what follows the {} bytes delivered so far (expected RBSP {})", h, delivered.len(), hex(&exp)); }
                    if b.is_empty() { if !(complete && valid && delivered.len() == exp.len()) { return "FAIL fill_buf reported the end before the end of a complete valid NAL".into(); } }
                    last_fill = b;
                } else if op.starts_with('x') {
                    // read_exact: exactly the n bytes that follow
                    let n: usize = op[1..].parse().unwrap();
                    if b.len() != n { return format!("FAIL read_exact({}) returned {} bytes", n, b.len()); }
                    delivered.extend_from_slice(&b); last_fill.clear();
                } else {
                    let n: usize = op[1..].parse().unwrap();
                    if b.is_empty() && n > 0 && !(complete && valid && delivered.len() == exp.len()) { return "FAIL read reported the end before the end of a complete valid NAL".into(); }
                    delivered.extend_from_slice(&b); let k = b.len().min(last_fill.len()); last_fill.drain(..k);
                }
            } else if let Some(rest) = o.strip_prefix("D:") {
                let mut it = rest.splitn(2, ':'); let got = unhex(it.next().unwrap()); let status = it.next().unwrap_or("");
                delivered.extend_from_slice(&got); last_fill.clear();
                if !exp.starts_with(&delivered) { return format!("FAIL drain delivered {} which is not what follows", hex(&got)); }
                match status {
                    "end" => if !(complete && valid && delivered.len() == exp.len()) { return format!("FAIL the end was reported after {} of {} bytes (complete={}, valid={})", delivered.len(), exp.len(), complete, valid); },
                    "WouldBlock" => if complete || !valid || delivered.len() != exp.len() { return format!("FAIL WouldBlock after {} of {} bytes (complete={}, valid={})", delivered.len(), exp.len(), complete, valid); },
                    "InvalidData" => if valid { return "FAIL InvalidData reported for a payload without forbidden sequences".into(); },
                    other => return format!("FAIL drain ended with {}", other),
                }
            } else if let Some(k) = o.strip_prefix('c') { let k: usize = k.parse().unwrap(); let k = k.min(last_fill.len()); delivered.extend(last_fill.drain(..k)); }
            else if op.starts_with('x') && (o == "err:WouldBlock" || o == "err:InvalidData") {
                // a read_exact that fails has taken an unknown number of bytes with it: the bookkeeping of this oracle ends here
                if o == "err:WouldBlock" && complete { return "FAIL WouldBlock on a complete NAL".into(); }
                if o == "err:InvalidData" && valid { return "FAIL InvalidData reported for a payload without forbidden sequences".into(); }
                return "ok".into();
            }
            else if o == "err:InvalidData" { saw_invalid = true; if valid { return "FAIL InvalidData reported for a payload without forbidden sequences".into(); } }
            else if o == "err:WouldBlock" { if complete { return "FAIL WouldBlock on a complete NAL".into(); } if !valid || delivered.len() + last_fill.len() < exp.len() { if valid { return "FAIL WouldBlock before the buffered data was exhausted".into(); } } }
            else if o == "err:Eof" && op.starts_with('x') {
                // read_exact ran into the end: legitimate only on a complete valid NAL with fewer bytes left than asked for; the bytes it took are gone
                let n: usize = op[1..].parse().unwrap();
                if !(complete && valid && exp.len() - delivered.len().min(exp.len()) < n) { return format!("FAIL read_exact({}) reported the end with {} bytes still to come", n, exp.len().saturating_sub(delivered.len())); }
                delivered = exp.clone(); last_fill.clear();
            }
            else if o.starts_with("err:") { return format!("FAIL unexpected error {}", o); }
            if !exp.starts_with(&delivered) { return format!("FAIL delivered {} is not a prefix of the expected RBSP {}", hex(&delivered), hex(&exp)); }
        }
        let _ = saw_invalid;
        "ok".into()
    }

    fn c02_decodenal(&mut self, h: &str, line: &str) -> String {
        let obs = self.run.run_line(line);
        let d = if h == "-" { vec![] } else { unhex(h) };
        let payload = if d.is_empty() { &[][..] } else { &d[1..] };
        let (exp, valid) = unescape(payload);
        if obs == "PANIC" { return "FAIL decode_nal panicked".into(); }
        if !valid { return if obs == "err:InvalidData" { "ok".into() } else { format!("FAIL invalid payload not reported: {}", obs) }; }
        let borrowed = exp.len() == payload.len();
        let want = format!("{}:{}", if borrowed { "B" } else { "O" }, hex(&exp));
        if obs == want { "ok".into() } else { format!("FAIL decode_nal gave {} expected {}", obs, want) }
    }

    fn c15(&mut self, t: &[&str], line: &str) -> String {
        let obs = self.run.run_line(line);
        if obs == "PANIC" { return "FAIL panic".into(); }
        let chunks = chunks_of(t[0]); let complete = t[1] == "1"; let all: Vec<u8> = chunks.concat();
        // positions of the active reader and of the spare (clone) slot
        let (mut pos, mut spare) = (0usize, 0usize); let mut fill = 0usize;  let mut spare_fill = 0usize;
        for (op, o) in t[2..].iter().zip(obs.split(' ')) {
            match *op {
                "cl" => { spare = pos; spare_fill = fill; }
                "sw" => { std::mem::swap(&mut pos, &mut spare); std::mem::swap(&mut fill, &mut spare_fill); }
                "h" => { let b = all[0]; let want = if b & 0x80 != 0 { "hdr:err".to_string() } else { format!("hdr:{},{}", (b >> 5) & 3, b & 31) }; if o != want { return format!("FAIL header accessors gave {} expected {}", o, want); } }
                _ => {
                    if let Some(h) = o.strip_prefix("ok:") {
                        let b = unhex(h);
                        if !all[pos..].starts_with(&b) { return format!("FAIL at offset {} got {} which is not what follows", pos, h); }
                        if op.starts_with('f') { fill = b.len(); if b.is_empty() && !(complete && pos == all.len()) { return "FAIL empty fill_buf before the end of a complete NAL".into(); } if pos < all.len() && b.is_empty() { return "FAIL empty fill".into(); } }
                        else { let n: usize = op[1..].parse().unwrap(); if b.is_empty() && n > 0 && !(complete && pos == all.len()) { return "FAIL read returned 0 before the end of a complete NAL".into(); } if pos < all.len() && n > 0 && b.is_empty() { return "FAIL read made no progress".into(); } pos += b.len(); fill = 0; }
                    } else if let Some(k) = o.strip_prefix('c') { let k: usize = k.parse().unwrap(); if k > fill { return "FAIL harness consumed more than filled".into(); } pos += k; fill = 0; }
                    else if o == "err:WouldBlock" { if complete || pos != all.len() { return format!("FAIL WouldBlock at offset {} of {} (complete={})", pos, all.len(), complete); } }
                    else { return format!("FAIL unexpected {}", o); }
                }
            }
        }
        "ok".into()
    }

    fn c08(&mut self, steps: &[&str], line: &str) -> String {
        let obs = self.run.run_line(line);
        if obs == "PANIC" { return "FAIL panic".into(); }
        let mut sofar: Vec<u8> = vec![]; let mut ignored = false; let mut complete_seen = 0;
        for (k, (step, o)) in steps.iter().zip(obs.split(' ')).enumerate() {
            let parts: Vec<&str> = step.split(';').collect();
            let bufs: Vec<Vec<u8>> = if parts[0].is_empty() { vec![] } else { parts[0].split(',').map(unhex).collect() };
            let end = parts[1] == "1"; let new: Vec<u8> = bufs.concat();
            let mut now = sofar.clone(); now.extend_from_slice(&new);
            if o == "-" {
                if !ignored && !now.is_empty() { return format!("FAIL step {}: no invocation although the NAL has bytes and was never ignored", k); }
            } else {
                if ignored { return format!("FAIL step {}: invoked after Ignore", k); }
                let f: Vec<&str> = o.split('|').collect();
                let mut seen = unhex(f[0]); for c in f[1].split(',') { seen.extend(unhex(c)); }
                if seen != now { return format!("FAIL step {}: handler saw {} expected {}", k, hex(&seen), hex(&now)); }
                if unhex(f[0]).is_empty() { return format!("FAIL step {}: empty head chunk", k); }
                if (f[2] == "1") != end { return format!("FAIL step {}: complete flag {} but end={}", k, f[2], end); }
                if end { complete_seen += 1; }
                if parts[2] == "I" { ignored = true; }
            }
            sofar = now;
            if end { if !sofar.is_empty() && !ignored && complete_seen != 1 && o == "-" { return format!("FAIL step {}: NAL ended without exactly one complete invocation", k); } sofar.clear(); ignored = false; complete_seen = 0; }
        }
        "ok".into()
    }

    /// reference bit-level decoder (clause 7.2 / 9.1) over the bit vector
    fn bits(&mut self, t: &[&str], line: &str, fin: Option<&str>) -> String {
        let obs = self.run.run_line(line);
        // on an incomplete NAL every end-of-data condition is WouldBlock instead (and never a value / success)
        let incomplete = fin == Some("WouldBlock");
        if obs == "PANIC" { return "FAIL panic".into(); }
        let d = if t[0] == "-" { vec![] } else { unhex(t[0]) };
        let bits: Vec<bool> = d.iter().flat_map(|b| (0..8).map(move |i| (b >> (7 - i)) & 1 == 1)).collect();
        let mut pos = 0usize; let mut dead = false;
        for (op, o) in t[1..].iter().zip(obs.split(' ')) {
            if dead { if o != "-" { return format!("FAIL op after failure produced {}", o); } continue; }
            let rest = &bits[pos..];
            let ue = |rest: &[bool]| -> Result<(u64, usize), String> {
                let z = rest.iter().take_while(|b| !**b).count();
                if z >= rest.len() { return Err("Io(f,Eof)".into()); }
                if z > 31 { return Err("TooLarge(f)".into()); }
                if rest.len() < 2 * z + 1 { return Err("Io(f,Eof)".into()); }
                let mut v = 0u64; for b in &rest[z + 1..2 * z + 1] { v = v * 2 + *b as u64; }
                Ok(((1u64 << z) - 1 + v, 2 * z + 1))
            };
            let want: Result<String, String> = if *op == "ue" { ue(rest).map(|(v, n)| { pos += n; v.to_string() }) }
                else if *op == "se" { ue(rest).map(|(k, n)| { pos += n; let m = ((k + 1) / 2) as i64; (if k % 2 == 1 { m } else { -m }).to_string() }) }
                else if *op == "b" { if rest.is_empty() { Err("Io(f,Eof)".into()) } else { pos += 1; Ok(rest[0].to_string()) } }
                else if *op == "more" { Ok(rest.iter().skip(1).any(|b| *b).to_string()) }
                else if *op == "finish" { dead = true; if rest.is_empty() { Err("Io(finish,Eof)".into()) } else if rest[1..].iter().any(|b| *b) { Err("Remaining".into()) } else if rest[0] { Ok("ok".into()) } else { Err("Io(finish,Eof)".into()) } }
                else if *op == "seifinish" { dead = true; if rest.is_empty() { Ok("ok".into()) } else if rest[0] && !rest[1..].iter().any(|b| *b) { Ok("ok".into()) } else { Err("Remaining".into()) } }
                else if *op == "rd" {
                    // the underlying reader is lent out only on a byte boundary; one byte is consumed through it if there is one
                    if pos % 8 != 0 { Ok("rd:unaligned".into()) } else if rest.len() >= 8 { pos += 8; Ok("rd:1".into()) } else if incomplete { dead = true; Ok("rd:err".into()) } else { Ok("rd:0".into()) } }
                else if let Some(n) = op.strip_prefix("skip") { let n: usize = n.parse().unwrap(); if rest.len() < n { Err("Io(f,Eof)".into()) } else { pos += n; Ok("ok".into()) } }
                else { let n: usize = op[1..].parse().unwrap(); if rest.len() < n { Err("Io(f,Eof)".into()) } else { let mut v = 0u64; for b in &rest[..n] { v = v * 2 + *b as u64; } pos += n; Ok(v.to_string()) } };
            let (mut w, mut is_err) = match want { Ok(s) => (s, false), Err(s) => (s, true) };
            if incomplete {
                if w.ends_with(",Eof)") { w = w.replace(",Eof)", ",WouldBlock)"); }
                // queries that reach the end of the buffered data cannot be answered yet
                let hits_end = match *op { "more" => !rest.iter().skip(1).any(|b| *b), "finish" => !is_err || w == "ok", "seifinish" => rest.is_empty() || (rest[0] && !rest[1..].iter().any(|b| *b)), _ => false };
                if hits_end && (*op == "more" || w == "ok") { w = format!("Io({},WouldBlock)", if *op == "more" { "f" } else { "finish" }); is_err = true; }
            }
            // names of the finish errors differ by call site; compare on the class for those
            let same = o == w || (is_err && w.starts_with("Io(finish") && o.starts_with("Io(") && (o.ends_with(",Eof)") || (incomplete && o.ends_with(",WouldBlock)"))));
            if !same { return format!("FAIL op {} at bit {}: got {} expected {}", op, pos, o, w); }
            if is_err { dead = true; }
        }
        "ok".into()
    }

    /// keep the latest accepted parameter sets as values outside any `Context` (a PPS is parsed against the fresh context)
    fn track_params(&mut self, toks: &[&str]) {
        let d = unhex(toks.get(1).copied().unwrap_or(""));
        if toks[0] == "sps" { if let Ok(s) = h264_reader::nal::sps::SeqParameterSet::from_bits(h264_reader::rbsp::BitReader::new(&d[..])) { self.sps_objs.insert(s.seq_parameter_set_id.id(), s); } }
        else { let rc = self.ref_ctx(); if let Ok(p) = h264_reader::nal::pps::PicParameterSet::from_bits(&rc, h264_reader::rbsp::BitReader::new(&d[..])) { self.pps_objs.insert(p.pic_parameter_set_id.id(), p); } }
    }
    fn slice_fresh_ctx(&mut self, line: &str, got: &str) -> String {
        let mut fresh = Runner::new(); fresh.ctx = self.ref_ctx();
        let want = fresh.run_line(line);
        if got == want { "ok".into() } else { format!("FAIL slice header against the context built by the history of puts gives [{}] but against a context assembled afresh from the latest accepted parameter sets gives [{}]", &got[..got.len().min(400)], &want[..want.len().min(400)]) }
    }
    fn ref_ctx(&self) -> h264_reader::Context {
        let mut c = h264_reader::Context::new();
        for s in self.sps_objs.values() { { let _ = c.put_seq_param_set(s.clone()); }; }
        for p in self.pps_objs.values() { { let _ = c.put_pic_param_set(p.clone()); }; }
        c
    }
    fn c19(&mut self, ops: &[&str], line: &str) -> String {
        let obs = self.run.run_line(line);
        if obs == "PANIC" { return "FAIL panic".into(); }
        let mut sps: std::collections::BTreeMap<u64, u64> = Default::default(); let mut pps: std::collections::BTreeMap<u64, u64> = Default::default();
        for (op, o) in ops.iter().zip(obs.split(' ')) {
            let want = if let Some(x) = op.strip_prefix("gs") { let id: u64 = x.parse().unwrap(); if id > 31 { "badid".to_string() } else { sps.get(&id).map(|t| format!("some({},{})", id, t)).unwrap_or("none".into()) } }
                else if let Some(x) = op.strip_prefix("gp") { let id: u64 = x.parse().unwrap(); if id > 255 { "badid".to_string() } else { pps.get(&id).map(|t| format!("some({},{})", id, t)).unwrap_or("none".into()) } }
                else if *op == "is" { format!("[{}]", sps.iter().map(|(i, t)| format!("{},{}", i, t)).collect::<Vec<_>>().join(";")) }
                else if *op == "ip" { format!("[{}]", pps.iter().map(|(i, t)| format!("{},{}", i, t)).collect::<Vec<_>>().join(";")) }
                else if let Some(x) = op.strip_prefix('s') { let v: Vec<u64> = x.split(':').map(|y| y.parse().unwrap()).collect(); if v[0] <= 31 { sps.insert(v[0], v[1]); "ok".to_string() } else { "rej".to_string() } }
                else if let Some(x) = op.strip_prefix('p') { let v: Vec<u64> = x.split(':').map(|y| y.parse().unwrap()).collect(); if v[0] <= 255 && v[1] <= 31 && v[2] <= 31 { pps.insert(v[0], v[2]); "ok".to_string() } else { "rej".to_string() } }
                else { "bad".to_string() };
            if o != want { return format!("FAIL op {}: got {} expected {}", op, o, want); }
        }
        "ok".into()
    }

    /// reference reading of an AVCDecoderConfigurationRecord (ISO/IEC 14496-15 5.2.4.1), independent of the library
    /// every accepted record: each iterator ends after at most the declared number of items, however long the caller keeps
    /// pulling (an iterator that repeats an error for ever is a hang for `count()` / `filter_map(Result::ok)` callers)
    fn avcc_iterators_end(d: &[u8]) -> Option<String> {
        use h264_reader::avcc::AvcDecoderConfigurationRecord; use std::convert::TryFrom;
        if let Ok(a) = AvcDecoderConfigurationRecord::try_from(d) {
            let nsps = a.num_of_sequence_parameter_sets();
            let got = a.sequence_parameter_sets().take(nsps + 3).count();
            if got > nsps { return Some(format!("FAIL sequence_parameter_sets() yielded more than the {} declared items (still going after {})", nsps, got)); }
            let got = a.picture_parameter_sets().take(259).count();
            if got > 255 { return Some(format!("FAIL picture_parameter_sets() did not end after 255 items ({} pulled)", got)); }
        }
        None
    }
    /// the details inside refusals are not part of C09: `NotEnoughData(e,a)` -> `NotEnoughData`, `UnsupportedVersion(v)` -> `UnsupportedVersion`,
    /// `ParamSet(kind)` -> `ParamSet(*)`
    fn norm_avcc(t: &str) -> String {
        let mut out = String::new(); let mut rest = t;
        loop {
            let hits = [("NotEnoughData(", "NotEnoughData"), ("UnsupportedVersion(", "UnsupportedVersion"), ("ParamSet(", "ParamSet(*)")];
            let next = hits.iter().filter_map(|(k, r)| rest.find(k).map(|p| (p, *k, *r))).min_by_key(|x| x.0);
            match next { None => { out.push_str(rest); return out; }
                Some((p, k, r)) => { out.push_str(&rest[..p]); out.push_str(r); let after = &rest[p + k.len()..]; rest = match after.find(')') { Some(c) => &after[c + 1..], None => "" }; } }
        }
    }
    fn c09(&mut self, h: &str, line: &str) -> String {
        let obs = Self::norm_avcc(&self.run.run_line(line));
        if obs == "PANIC" || obs.contains("PANIC") { return "FAIL panic".into(); }
        let d = unhex(h);
        if let Some(f) = Self::avcc_iterators_end(&d) { return f; }
        if d.len() < 6 { return if obs == "NotEnoughData" { "ok".into() } else { format!("FAIL a {}-byte record was not refused as too short: {}", d.len(), &obs[..obs.len().min(80)]) }; }
        if d[0] != 1 { return if obs == "UnsupportedVersion" { "ok".into() } else { format!("FAIL version {} not refused: {}", d[0], &obs[..obs.len().min(80)]) }; }
        // walk the declared entries; any entry cut short means the record must be refused
        let mut pos = 6usize; let mut lists: Vec<Vec<&[u8]>> = vec![vec![], vec![]]; let mut truncated = false;
        let nsps = (d[5] & 31) as usize;
        'outer: for which in 0..2 {
            let n = if which == 0 { nsps } else { if pos >= d.len() { truncated = true; break; } let n = d[pos] as usize; pos += 1; n };
            for _ in 0..n {
                if pos + 2 > d.len() { truncated = true; break 'outer; }
                let l = ((d[pos] as usize) << 8) | d[pos + 1] as usize; pos += 2;
                if pos + l > d.len() { truncated = true; break 'outer; }
                lists[which].push(&d[pos..pos + l]); pos += l;
            }
        }
        if truncated { return if obs.starts_with("NotEnoughData") { "ok".into() } else { format!("FAIL a record truncated inside its declared parameter sets was not refused: {}", &obs[..obs.len().min(100)]) }; }
        if !obs.starts_with("Ok ") { return format!("FAIL a well-formed record was refused: {}", &obs[..obs.len().min(100)]); }
        let render = |l: &Vec<&[u8]>, want: u8| -> String {
            for n in l { if n.is_empty() { return "ParamSet(*)".into(); } if n[0] & 0x80 != 0 { return "ParamSet(*)".into(); } if n[0] & 31 != want { return "ParamSet(*)".into(); } }
            format!("Ok({})", l.iter().map(|n| hex(n)).collect::<Vec<_>>().join(","))
        };
        // A.3: the level byte is the level, except that 11 with constraint_set3_flag means Level 1b
        let level = format!("{}{}", d[3], if d[3] == 11 && d[2] & 0x10 != 0 { "b" } else if [10u8, 11, 12, 13, 20, 21, 22, 30, 31, 32, 40, 41, 42, 50, 51, 52, 60, 61, 62].contains(&d[3]) { "" } else { "?" });
        let want = format!("Ok v={} n={} prof={} compat={} level={} lsm1={} sps={} pps={} ", d[0], nsps, d[1], d[2], level, d[4] & 3, render(&lists[0], 7), render(&lists[1], 8));
        if !obs.starts_with(&want) { return format!("FAIL accessors / iterators gave [{}] expected [{}]", &obs[..obs.len().min(300)], &want[..want.len().min(300)]); }
        // create_context = every entry parsed on its own, in order, from its RBSP (un-escaped by the reference routine of this
        // harness and read from one contiguous buffer); the first failure decides the error class
        let mut ctx = h264_reader::Context::new(); let mut err: Option<&str> = None;
        // last writer wins, kept here in ordered maps (id -> rendering) independently of the library's tables
        let mut smap: std::collections::BTreeMap<u8, String> = Default::default(); let mut pmap: std::collections::BTreeMap<u8, String> = Default::default();
        'ctx: for which in 0..2 {
            for n in &lists[which] {
                if n.is_empty() || n[0] & 0x80 != 0 || n[0] & 31 != [7u8, 8][which] { err = Some("ParamSet"); break 'ctx; }
                let (rbsp, valid) = unescape(&n[1..]);
                if which == 0 {
                    match h264_reader::nal::sps::SeqParameterSet::from_bits(h264_reader::rbsp::BitReader::new(&rbsp[..])) { Ok(s) if valid => { smap.insert(s.seq_parameter_set_id.id(), format!("{:?}", s)); { let _ = ctx.put_seq_param_set(s); } } _ => { err = Some("Sps"); break 'ctx; } }
                } else {
                    match h264_reader::nal::pps::PicParameterSet::from_bits(&ctx, h264_reader::rbsp::BitReader::new(&rbsp[..])) { Ok(p) if valid => { pmap.insert(p.pic_parameter_set_id.id(), format!("{:?}", p)); { let _ = ctx.put_pic_param_set(p); } } _ => { err = Some("Pps"); break 'ctx; } }
                }
            }
        }
        let want_ctx = match err { Some(k) => format!("ctx=Err({})", k), None => format!("ctx=Ok(sps=[{}] pps=[{}])", smap.values().cloned().collect::<Vec<_>>().join(";"), pmap.values().cloned().collect::<Vec<_>>().join(";")) };
        if obs.ends_with(&want_ctx) { "ok".into() } else { let got = obs.rfind("ctx=").map(|i| &obs[i..]).unwrap_or(""); format!("FAIL create_context gave [{}] but parsing each parameter set on its own gives [{}]", &got[..got.len().min(300)], &want_ctx[..want_ctx.len().min(300)]) }
    }

    /// pic_timing (D.1.2 / D.2.2) decoded here from the payload bits with the widths of the SPS's HRD (NAL HRD first, then
    /// VCL): the delays and every time_offset (two's complement of time_offset_length bits) the library reports must be these
    /// reference decoder for buffering_period (D.1.2): ue sps id, then for the NAL HRD and the VCL HRD (each if present in the
    /// SPS that id names) one (delay, offset) pair of initial_cpb_removal_delay_length bits per CPB, then nothing or a stop bit + zeros
    fn c11_bp(&mut self, t: &[&str], line: &str) -> String {
        let obs = self.run.run_line(line);
        if obs == "PANIC" { return "FAIL panic".into(); }
        let payload = unhex(t.get(1).copied().unwrap_or(""));
        let mut bits: Vec<bool> = vec![]; for b in &payload { for i in (0..8).rev() { bits.push((b >> i) & 1 == 1); } }
        let mut pos = 0usize;
        let want: Option<String> = (|| {
            let mut z = 0u32; while pos < bits.len() && !bits[pos] { z += 1; pos += 1; if z > 31 { return None; } }
            if pos >= bits.len() { return None; } pos += 1;
            if pos + z as usize > bits.len() { return None; }
            let mut v = 0u64; for _ in 0..z { v = (v << 1) | bits[pos] as u64; pos += 1; }
            let id = (1u64 << z) - 1 + v; if id > 31 { return None; }
            let sid = h264_reader::nal::sps::SeqParamSetId::from_u32(id as u32).ok()?;
            let sps = self.run.ctx.sps_by_id(sid)?;
            let vui = sps.vui_parameters.as_ref();
            let mut parts = vec![];
            for h in [vui.and_then(|v| v.nal_hrd_parameters.as_ref()), vui.and_then(|v| v.vcl_hrd_parameters.as_ref())] {
                match h { None => parts.push("None".to_string()), Some(h) => {
                    let n = h.initial_cpb_removal_delay_length_minus1 as usize + 1; let mut items = vec![];
                    for _ in 0..h.cpb_specs.len() {
                        if pos + 2 * n > bits.len() { return None; }
                        let mut a = 0u64; for _ in 0..n { a = (a << 1) | bits[pos] as u64; pos += 1; }
                        let mut b = 0u64; for _ in 0..n { b = (b << 1) | bits[pos] as u64; pos += 1; }
                        items.push(format!("InitialCpbRemoval {{ initial_cpb_removal_delay: {}, initial_cpb_removal_delay_offset: {} }}", a, b));
                    }
                    parts.push(format!("Some([{}])", items.join(", "))); } }
            }
            // payload end: nothing left, or a stop bit followed by zero bits only
            if pos < bits.len() { if !bits[pos] || bits[pos + 1..].iter().any(|b| *b) { return None; } }
            Some(format!("Ok(BufferingPeriod {{ nal_hrd_bp: {}, vcl_hrd_bp: {} }})", parts[0], parts[1]))
        })();
        let want = want.unwrap_or("Err".to_string());
        if obs == want { "ok".into() } else { format!("FAIL buffering_period gave [{}], the reference decoder gives [{}]", &obs[..obs.len().min(300)], &want[..want.len().min(300)]) }
    }
    fn c11_pt(&mut self, t: &[&str], line: &str) -> String {
        let obs = self.run.run_line(line);
        let spsb = unhex(t[1]); let payload = unhex(t.get(2).copied().unwrap_or(""));
        let sps = match h264_reader::nal::sps::SeqParameterSet::from_bits(h264_reader::rbsp::BitReader::new(&spsb[..])) { Ok(s) => s, Err(_) => return "ok".into() };
        let mut bits: Vec<bool> = vec![]; for b in &payload { for i in (0..8).rev() { bits.push((b >> i) & 1 == 1); } }
        let mut pos = 0usize;
        let mut rd = |n: u32, pos: &mut usize| -> Option<u64> { if *pos + n as usize > bits.len() { return None; } let mut v = 0u64; for _ in 0..n { v = (v << 1) | bits[*pos] as u64; *pos += 1; } Some(v) };
        let vui = sps.vui_parameters.as_ref();
        let hrd = vui.and_then(|v| v.nal_hrd_parameters.as_ref().or(v.vcl_hrd_parameters.as_ref()));
        let mut want: Vec<String> = vec![];
        let decoded: Option<()> = (|| {
            match hrd { Some(h) => { let a = rd(h.cpb_removal_delay_length_minus1 as u32 + 1, &mut pos)?; let b = rd(h.dpb_output_delay_length_minus1 as u32 + 1, &mut pos)?;
                    want.push(format!("delays: Some(Delays {{ cpb_removal_delay: {}, dpb_output_delay: {} }})", a, b)); }
                None => want.push("delays: None".into()) }
            if vui.map(|v| v.pic_struct_present_flag).unwrap_or(false) {
                let ps = rd(4, &mut pos)?;
                let n = match ps { 0 | 1 | 2 => 1, 3 | 4 | 7 => 2, 5 | 6 | 8 => 3, _ => 0 };
                let tol = hrd.map(|h| h.time_offset_length as u32).unwrap_or(24);
                for _ in 0..n {
                    if rd(1, &mut pos)? == 1 {
                        rd(2, &mut pos)?; rd(1, &mut pos)?; rd(5, &mut pos)?; let full = rd(1, &mut pos)?; rd(1, &mut pos)?; rd(1, &mut pos)?; let nf = rd(8, &mut pos)?;
                        want.push(format!("n_frames: {},", nf));
                        if full == 1 { rd(6, &mut pos)?; rd(6, &mut pos)?; rd(5, &mut pos)?; }
                        else if rd(1, &mut pos)? == 1 { rd(6, &mut pos)?; if rd(1, &mut pos)? == 1 { rd(6, &mut pos)?; if rd(1, &mut pos)? == 1 { rd(5, &mut pos)?; } } }
                        if tol > 0 { let raw = rd(tol, &mut pos)? as i64; let v = if raw >= 1i64 << (tol - 1) { raw - (1i64 << tol) } else { raw }; want.push(format!("time_offset: Some({})", v)); }
                        else { want.push("time_offset: None".into()); }
                    }
                }
            } else { want.push("pic_struct: None".into()); }
            Some(())
        })();
        // the payload must end here, or with a 1 bit followed by zero bits (bit_equal_to_one / bit_equal_to_zero of sei_payload)
        let tail_ok = pos == bits.len() || (bits[pos] && bits[pos + 1..].iter().all(|b| !*b) && bits.len() - pos <= 8 && pos % 8 != 0) ;
        if decoded.is_some() {
            if !obs.starts_with("Ok(") { return if tail_ok { format!("FAIL a well-formed pic_timing was refused ({}); fields: {}", obs, want.join(" ")) } else { "ok".into() }; }
            // accepted (the library also tolerates a stop bit after a byte-aligned payload): the fields are these bits
            let mut at = 0usize;
            for w in &want { match obs[at..].find(w.as_str()) { Some(i) => at += i + w.len(), None => return format!("FAIL pic_timing: expected [{}] (in this order) but the library returned {}", want.join(" | "), &obs[..obs.len().min(400)]) } }
        }
        "ok".into()
    }

    /// end to end: the NALs the handler is shown are the reference segmentation of the stream (each non-empty unit once,
    /// in order, byte-identical), and each parse inside the handler equals the parse of that NAL alone from a contiguous
    /// buffer against a context built the same way
    fn c12(&mut self, t: &[&str], line: &str) -> String {
        let policy = t[0];
        let mut data: Vec<u8> = vec![];
        for op in &t[1..] { if *op != "r" { data.extend(unhex(&op[2..])); } }
        let mut units: Vec<Vec<u8>> = vec![]; let mut cur: Vec<u8> = vec![];
        for e in reference_segmentation(&data) { if e == "E" { if !cur.is_empty() { units.push(std::mem::take(&mut cur)); } else { cur.clear(); } } else { cur.push(u8::from_str_radix(&e, 16).unwrap()); } }
        let obs = self.run.run_line(line);
        if obs == "PANIC" { return "FAIL panic".into(); }
        let items: Vec<(&str, &str)> = if obs.is_empty() { vec![] } else { obs.split(' ').map(|it| { let mut p = it.splitn(2, '='); (p.next().unwrap(), p.next().unwrap_or("")) }).collect() };
        let mut alone = Runner::new();
        let mut k = 0usize;
        for u in &units {
            let ty = if u[0] & 0x80 != 0 { 255 } else { u[0] & 31 };
            // parsed alone: from the reference-un-escaped RBSP in one plain buffer when the unit is valid, through the library's own
            // NAL reader otherwise
            let want = match alone.nal_plain(u) { Some(w) => w, None => alone.run_line(&format!("nal {} 1", hex(u))) }.replace(' ', "_");
            if policy == "H" && (ty == 1 || ty == 5) {
                // tried on every invocation: shown bytes are a prefix of the unit; the outcome is that of the complete NAL
                // (C17) except for the position fields, which depend on how much was buffered
                if want.ends_with("WouldBlock") { continue; }
                let (hx, res) = match items.get(k) { Some(x) => *x, None => return format!("FAIL slice NAL {} was never decided", hex(u)) };
                k += 1;
                if !hex(u).starts_with(hx) { return format!("FAIL the handler was shown {} which is not a prefix of NAL {}", hx, hex(u)); }
                let cut = |s: &str| s.split("_left=").next().unwrap().to_string();
                if cut(res) != cut(&want) { return format!("FAIL slice header inside the handler [{}] differs from the NAL parsed alone [{}]", &res[..res.len().min(200)], &want[..want.len().min(200)]); }
            } else {
                let (hx, res) = match items.get(k) { Some(x) => *x, None => return format!("FAIL NAL {} was never shown completely", &hex(u)[..hex(u).len().min(80)]) };
                k += 1;
                if hx != hex(u) { return format!("FAIL the handler was shown {} but the NAL unit in the stream is {}", &hx[..hx.len().min(120)], &hex(u)[..hex(u).len().min(120)]); }
                if res != want { return format!("FAIL parse inside the handler [{}] differs from the NAL parsed alone [{}]", &res[..res.len().min(200)], &want[..want.len().min(200)]); }
            }
        }
        if k != items.len() { return format!("FAIL the handler produced {} results for {} NAL units", items.len(), units.len()); }
        "ok".into()
    }

    /// a proper prefix presented as an incomplete NAL must block or agree with the complete contiguous NAL (announced by
    /// the preceding `full` line); both are parsed against the same context, twice (purity), without storing results
    fn c17(&mut self, t: &[&str], line: &str) -> String {
        use h264_reader::nal::RefNal;
        let chunks = chunks_of(t[1]); let complete = t[2] == "1"; let bytes: Vec<u8> = chunks.concat();
        let mut verdict = "ok".to_string();
        if !complete && self.full_nal.len() > bytes.len() && self.full_nal.starts_with(&bytes) && unescape(&self.full_nal[1..]).1 {
            let refs: Vec<&[u8]> = chunks.iter().map(|c| &c[..]).collect();
            let part = RefNal::new(refs[0], &refs[1..], false);
            let full = RefNal::new(&self.full_nal[..], &[], true);
            let p1 = self.parse_pure(&part); let p2 = self.parse_pure(&part); let f = self.parse_pure(&full);
            if p1 != p2 { verdict = format!("FAIL parsing the same partial NAL twice gave different outcomes: {} / {}", &p1[..p1.len().min(200)], &p2[..p2.len().min(200)]); }
            else if p1.starts_with("sei:") {
                // a prefix of the complete message sequence, then a would-block failure
                let pm: Vec<&str> = p1[4..].split(' ').collect(); let fm: Vec<&str> = f[4..].split(' ').collect();
                let k = pm.iter().take_while(|m| m.starts_with("msg:")).count();
                let okp = pm[..k].iter().zip(fm.iter()).all(|(a, b)| a == b) && pm.get(k).map(|e| e.contains("WouldBlock") || fm.get(k) == Some(e)).unwrap_or(false);
                if !okp { verdict = format!("FAIL SEI messages from the prefix [{}] are not a prefix of those of the complete NAL [{}] followed by a would-block failure", &p1[..p1.len().min(300)], &f[..f.len().min(300)]); }
            } else {
                let blocks = p1.ends_with(":WouldBlock");
                let same = p1 == f || (p1.ends_with(":Err") && f.ends_with(":Err"));
                if !blocks && !same { verdict = format!("FAIL prefix of {} bytes gave [{}] but the complete NAL gives [{}]", bytes.len(), &p1[..p1.len().min(300)], &f[..f.len().min(300)]); }
                if p1.starts_with("sps:Ok") || p1.starts_with("pps:Ok") { verdict = format!("FAIL a parameter set was accepted from a proper prefix ({} of {} bytes)", bytes.len(), self.full_nal.len()); }
            }
        }
        // scratch storage left behind by an earlier reader (empty, dirty, longer than any payload here) must not change what an SEI NAL yields
        if verdict == "ok" && !bytes.is_empty() && bytes[0] & 0x9f == 6 {
            let refs: Vec<&[u8]> = chunks.iter().map(|c| &c[..]).collect();
            let nal = RefNal::new(refs[0], &refs[1..], complete);
            use h264_reader::nal::Nal;
            let a = self.run.sei_messages_scratch(nal.rbsp_bytes(), vec![]).join(" ");
            let b = self.run.sei_messages_scratch(nal.rbsp_bytes(), vec![0x5Au8; 300]).join(" ");
            let c = self.run.sei_messages_scratch(nal.rbsp_bytes(), vec![0xAAu8; 7]).join(" ");
            if a != b || a != c { verdict = format!("FAIL the SEI messages depend on what the scratch storage held before: empty [{}] / 300 dirty bytes [{}] / 7 dirty bytes [{}]", &a[..a.len().min(200)], &b[..b.len().min(200)], &c[..c.len().min(200)]); }
        }
        let _ = self.run.run_line(line);
        verdict
    }
    fn parse_pure(&self, nal: &h264_reader::nal::RefNal<'_>) -> String {
        use h264_reader::nal::Nal;
        use h264_reader::nal::sps::SeqParameterSet; use h264_reader::nal::pps::PicParameterSet; use h264_reader::nal::slice::SliceHeader;
        let hdr = match nal.header() { Ok(h) => h, Err(_) => return "hdr:err".into() };
        match hdr.nal_unit_type().id() {
            7 => match SeqParameterSet::from_bits(nal.rbsp_bits()) { Ok(s) => format!("sps:Ok({:?})", s), Err(e) => format!("sps:{}", err_class(&e)) },
            8 => match PicParameterSet::from_bits(&self.run.ctx, nal.rbsp_bits()) { Ok(p) => format!("pps:Ok({:?})", p), Err(e) => format!("pps:{}", err_class(&e)) },
            1 | 5 => { let mut br = nal.rbsp_bits(); match SliceHeader::from_bits(&self.run.ctx, &mut br, hdr) { Ok((h, s, p)) => format!("slice:Ok({:?},{},{})", h, s.seq_parameter_set_id.id(), p.pic_parameter_set_id.id()), Err(e) => format!("slice:{}", err_class(&e)) } }
            6 => format!("sei:{}", self.run.sei_messages(nal.rbsp_bytes()).join(" ")),
            t => format!("other:{}", t),
        }
    }

    /// the documented bounds of C16 checked on the public fields of whatever the real parsers accept
    fn c16(&mut self, t: &[&str], line: &str) -> String {
        use h264_reader::nal::sps::{SeqParameterSet, PicOrderCntType, ChromaFormat};
        use h264_reader::nal::pps::{PicParameterSet, SliceGroup};
        use h264_reader::nal::slice::{SliceHeader, NumRefIdxActive, PicOrderCountLsb};
        use h264_reader::nal::NalHeader;
        use h264_reader::rbsp::BitReader;
        let mut bad: Vec<String> = vec![];
        match t[0] {
            "sps" => {
                let d = unhex(t.get(1).copied().unwrap_or(""));
                if let Ok(s) = SeqParameterSet::from_bits(BitReader::new(&d[..])) {
                    if s.seq_parameter_set_id.id() > 31 { bad.push("sps id > 31".into()); }
                    if s.log2_max_frame_num_minus4 > 12 { bad.push(format!("log2_max_frame_num_minus4 = {}", s.log2_max_frame_num_minus4)); }
                    if s.chroma_info.bit_depth_luma_minus8 > 6 || s.chroma_info.bit_depth_chroma_minus8 > 6 { bad.push("bit depth > 14".into()); }
                    match &s.pic_order_cnt { PicOrderCntType::TypeZero { log2_max_pic_order_cnt_lsb_minus4 } => if *log2_max_pic_order_cnt_lsb_minus4 > 12 { bad.push("log2 POC lsb > 16".into()); },
                        PicOrderCntType::TypeOne { offsets_for_ref_frame, .. } => if offsets_for_ref_frame.len() > 255 { bad.push("more than 255 POC cycle offsets".into()); }, _ => {} }
                    if let Some(m) = &s.chroma_info.scaling_matrix {
                        let want8 = if s.chroma_info.chroma_format == ChromaFormat::YUV444 { 6 } else { 2 };
                        if m.scaling_list4x4.len() != 6 || m.scaling_list8x8.len() != want8 { bad.push(format!("{} + {} scaling lists for chroma format {:?}", m.scaling_list4x4.len(), m.scaling_list8x8.len(), s.chroma_info.chroma_format)); }
                    }
                    if let Some(v) = &s.vui_parameters {
                        for h in [v.nal_hrd_parameters.as_ref(), v.vcl_hrd_parameters.as_ref()].iter().flatten() { if h.cpb_specs.is_empty() || h.cpb_specs.len() > 32 { bad.push(format!("{} CPB entries", h.cpb_specs.len())); } }
                        if let Some(b) = &v.bitstream_restrictions {
                            if b.max_bytes_per_pic_denom > 16 || b.max_bits_per_mb_denom > 16 || b.log2_max_mv_length_horizontal > 16 || b.log2_max_mv_length_vertical > 16 { bad.push(format!("bitstream restriction out of range: {:?}", b)); }
                            if b.max_num_reorder_frames > b.max_dec_frame_buffering || s.max_num_ref_frames > b.max_dec_frame_buffering { bad.push(format!("bitstream restriction inconsistent with max_num_ref_frames {}: {:?}", s.max_num_ref_frames, b)); }
                        }
                    }
                }
            }
            "pps" => {
                let d = unhex(t.get(1).copied().unwrap_or(""));
                if let Ok(p) = PicParameterSet::from_bits(&self.run.ctx, BitReader::new(&d[..])) {
                    if self.run.ctx.sps_by_id(p.seq_parameter_set_id).is_none() { bad.push("refers to an SPS that is not in the context".into()); }
                    if p.num_ref_idx_l0_default_active_minus1 > 31 || p.num_ref_idx_l1_default_active_minus1 > 31 { bad.push("reference count > 32".into()); }
                    let groups = match &p.slice_groups { None => 1, Some(SliceGroup::Interleaved { run_length_minus1 }) => run_length_minus1.len() as u32, Some(SliceGroup::Dispersed { num_slice_groups_minus1 }) => num_slice_groups_minus1 + 1,
                        Some(SliceGroup::ForegroundAndLeftover { rectangles }) => rectangles.len() as u32 + 1, Some(SliceGroup::Changing { num_slice_groups_minus1, .. }) => num_slice_groups_minus1 + 1, Some(SliceGroup::ExplicitAssignment { num_slice_groups_minus1, .. }) => num_slice_groups_minus1 + 1 };
                    if groups > 8 { bad.push(format!("{} slice groups", groups)); }
                    let bd = self.run.ctx.sps_by_id(p.seq_parameter_set_id).map(|s| s.chroma_info.bit_depth_luma_minus8 as i32).unwrap_or(0);
                    if p.pic_init_qp_minus26 < -(26 + 6 * bd) || p.pic_init_qp_minus26 > 25 || p.pic_init_qs_minus26 < -26 || p.pic_init_qs_minus26 > 25 || p.chroma_qp_index_offset < -12 || p.chroma_qp_index_offset > 12 { bad.push("QP/QS/chroma offset out of range".into()); }
                    if let Some(e) = &p.extension { if e.second_chroma_qp_index_offset < -12 || e.second_chroma_qp_index_offset > 12 { bad.push("second chroma offset out of range".into()); } }
                }
            }
            _ => {
                if let Ok(h) = NalHeader::new(unhex(t[1])[0]) {
                    let d = unhex(t.get(2).copied().unwrap_or(""));
                    let mut br = BitReader::new(&d[..]);
                    if let Ok((sh, s, p)) = SliceHeader::from_bits(&self.run.ctx, &mut br, h) {
                        let ctx_s = self.run.ctx.sps_by_id(s.seq_parameter_set_id); let ctx_p = self.run.ctx.pps_by_id(p.pic_parameter_set_id);
                        if !ctx_s.map(|x| std::ptr::eq(x, s)).unwrap_or(false) || !ctx_p.map(|x| std::ptr::eq(x, p)).unwrap_or(false) { bad.push("returned SPS/PPS are not the context entries named by the ids".into()); }
                        if p.seq_parameter_set_id.id() != s.seq_parameter_set_id.id() { bad.push("returned SPS is not the one the PPS refers to".into()); }
                        if (sh.frame_num as u32) >= (1u32 << (s.log2_max_frame_num_minus4 + 4)) { bad.push("frame_num not below its modulus".into()); }
                        if let (Some(lsb), h264_reader::nal::sps::PicOrderCntType::TypeZero { log2_max_pic_order_cnt_lsb_minus4 }) = (&sh.pic_order_cnt_lsb, &s.pic_order_cnt) {
                            let v = match lsb { PicOrderCountLsb::Frame(v) => Some(*v), PicOrderCountLsb::FieldsAbsolute { pic_order_cnt_lsb, .. } => Some(*pic_order_cnt_lsb), _ => None };
                            if let Some(v) = v { if v >= (1u32 << (log2_max_pic_order_cnt_lsb_minus4 + 4)) { bad.push("POC lsb not below its modulus".into()); } } }
                        match &sh.num_ref_idx_active { Some(NumRefIdxActive::P { num_ref_idx_l0_active_minus1 }) => if *num_ref_idx_l0_active_minus1 > 31 { bad.push("reference count > 32".into()); },
                            Some(NumRefIdxActive::B { num_ref_idx_l0_active_minus1, num_ref_idx_l1_active_minus1 }) => if *num_ref_idx_l0_active_minus1 > 31 || *num_ref_idx_l1_active_minus1 > 31 { bad.push("reference count > 32".into()); }, None => {} }
                        if let Some(q) = sh.slice_qs { if q > 51 { bad.push(format!("slice QS = {}", q)); } }
                    }
                }
            }
        }
        let _ = self.run.run_line(line);   // keep the context in step
        if bad.is_empty() { "ok".into() } else { format!("FAIL accepted but out of the documented bounds: {}", bad.join("; ")) }
    }

    /// pixel dimensions by the standard's formula in 128-bit arithmetic, fps and codec string, from the public fields
    fn c13(&mut self, line: &str) -> String {
        use h264_reader::nal::sps::{SeqParameterSet, ChromaFormat, FrameMbsFlags};
        use h264_reader::rbsp::BitReader;
        let d = unhex(line.split_whitespace().nth(1).unwrap_or(""));
        let s = match SeqParameterSet::from_bits(BitReader::new(&d[..])) { Ok(s) => s, Err(_) => return "ok".into() };
        let mul: u128 = match s.frame_mbs_flags { FrameMbsFlags::Fields { .. } => 2, FrameMbsFlags::Frames => 1 };
        let w = 16 * (s.pic_width_in_mbs_minus1 as u128 + 1); let h = 16 * mul * (s.pic_height_in_map_units_minus1 as u128 + 1);
        let cx: u128 = if matches!(s.chroma_info.chroma_format, ChromaFormat::YUV420 | ChromaFormat::YUV422) { 2 } else { 1 };
        let cy: u128 = mul * if matches!(s.chroma_info.chroma_format, ChromaFormat::YUV420) { 2 } else { 1 };
        let (l, r, t, b) = s.frame_cropping.as_ref().map(|c| (c.left_offset as u128, c.right_offset as u128, c.top_offset as u128, c.bottom_offset as u128)).unwrap_or((0, 0, 0, 0));
        let lim = 1u128 << 32;
        let ok = w < lim && h < lim && l * cx < lim && r * cx < lim && t * cy < lim && b * cy < lim && (l + r) * cx <= w && (t + b) * cy <= h;
        match (s.pixel_dimensions(), ok) {
            (Ok((gw, gh)), true) => if gw as u128 != w - (l + r) * cx || gh as u128 != h - (t + b) * cy { return format!("FAIL pixel_dimensions = ({},{}) but the standard gives ({},{})", gw, gh, w - (l + r) * cx, h - (t + b) * cy); },
            (Err(_), false) => {}
            (Ok(g), false) => return format!("FAIL pixel_dimensions = {:?} although a product exceeds 32 bits or the crop exceeds the picture", g),
            (Err(e), true) => return format!("FAIL pixel_dimensions = Err({:?}) but the standard gives ({},{})", e, w - (l + r) * cx, h - (t + b) * cy),
        }
        if let Some(ti) = s.vui_parameters.as_ref().and_then(|v| v.timing_info.as_ref()) {
            let want = (ti.time_scale as f64) / (2.0 * (ti.num_units_in_tick as f64));
            match s.fps() { Some(f) if f == want || (f.is_nan() && want.is_nan()) => {} other => return format!("FAIL fps = {:?}, expected {}", other, want) }
        } else if s.fps().is_some() { return "FAIL fps without timing info".into(); }
        let want = format!("avc1.{:02X}{:02X}{:02X}", u8::from(s.profile_idc), u8::from(s.constraint_flags), s.level_idc);
        if format!("{}", s.rfc6381()) != want { return format!("FAIL rfc6381 = {} expected {}", s.rfc6381(), want); }
        if s.profile().profile_idc() != u8::from(s.profile_idc) || s.level().level_idc() != s.level_idc { return "FAIL profile / level do not map back".into(); }
        // Level 1b is told from 1.1 by constraint_set3_flag alone (A.3.1, the table checked exhaustively by C20)
        if (s.level() == h264_reader::nal::sps::Level::L1_b) != (s.level_idc == 11 && u8::from(s.constraint_flags) & 0x10 != 0) { return format!("FAIL level() = {:?} for level_idc {} with constraint flags {:#04x}", s.level(), s.level_idc, u8::from(s.constraint_flags)); }
        "ok".into()
    }

    /// the round-trip statements of C20 evaluated directly on the real functions
    fn c20(&mut self, t: &[&str]) -> String {
        use h264_reader::nal::{NalHeader, UnitType};
        use h264_reader::nal::sps::{Profile, ProfileIdc, Level, ConstraintFlags, SeqParamSetId};
        use h264_reader::nal::pps::PicParamSetId;
        let v: u64 = t[1].parse().unwrap();
        match t[0] {
            "hdr" => { let b = v as u8; match NalHeader::new(b) {
                Ok(h) => if b >= 128 { "FAIL header byte with the top bit set accepted".into() } else if h.nal_ref_idc() != (b >> 5) & 3 || h.nal_unit_type().id() != b & 31 || u8::from(h) != b { format!("FAIL header {:#04x}: ref_idc {} type {} byte {}", b, h.nal_ref_idc(), h.nal_unit_type().id(), u8::from(h)) } else { "ok".into() },
                Err(_) => if b >= 128 { "ok".into() } else { format!("FAIL header {:#04x} refused", b) } } }
            "unittype" => { let id = v as u8; match UnitType::for_id(id) {
                Ok(u) => { if id > 31 { return format!("FAIL unit type id {} accepted", id); } if u.id() != id { return format!("FAIL UnitType::for_id({}).id() = {}", id, u.id()); }
                    for j in 0..id { if UnitType::for_id(j).ok() == Some(u) { return format!("FAIL unit type ids {} and {} map to the same type", j, id); } } "ok".into() }
                Err(_) => if id > 31 { "ok".into() } else { format!("FAIL unit type id {} refused", id) } } }
            "profile" => { let b = v as u8; let back = Profile::from_profile_idc(ProfileIdc::from(b)).profile_idc(); if back == b { "ok".into() } else { format!("FAIL profile_idc {} maps back to {}", b, back) } }
            "level" => { let f = v as u8; let l: u8 = t[2].parse().unwrap(); let lv = Level::from_constraint_flags_and_level_idc(ConstraintFlags::from(f), l);
                if lv.level_idc() != l { format!("FAIL (flags {:#04x}, level_idc {}) maps back to {}", f, l, lv.level_idc()) }
                else if (lv == Level::L1_b) != (l == 11 && f & 0x10 != 0) { format!("FAIL level 1b decision wrong for flags {:#04x}, level_idc {}", f, l) }
                else if !matches!(lv, Level::Unknown(_)) != [10u8, 11, 12, 13, 20, 21, 22, 30, 31, 32, 40, 41, 42, 50, 51, 52, 60, 61, 62].contains(&l) { format!("FAIL level_idc {} is {} a level of Table A-1 but came back as {:?}", l, if matches!(lv, Level::Unknown(_)) { "" } else { "not" }, lv) }
                else { "ok".into() } }
            "flags" => { let f = v as u8; let c = ConstraintFlags::from(f); let bits = [c.flag0(), c.flag1(), c.flag2(), c.flag3(), c.flag4(), c.flag5()];
                let mut ok = u8::from(c) == f && c.reserved_zero_two_bits() == f & 3; for (i, b) in bits.iter().enumerate() { ok &= *b == ((f >> (7 - i)) & 1 == 1); }
                if ok { "ok".into() } else { format!("FAIL constraint flags {:#04x} not preserved", f) } }
            "spsid" => match SeqParamSetId::from_u32(v as u32) { Ok(i) => if v <= 31 && i.id() as u64 == v { "ok".into() } else { format!("FAIL SeqParamSetId::from_u32({}) gave {}", v, i.id()) }, Err(_) => if v > 31 { "ok".into() } else { format!("FAIL SeqParamSetId {} refused", v) } },
            "ppsid" => match PicParamSetId::from_u32(v as u32) { Ok(i) => if v <= 255 && i.id() as u64 == v { "ok".into() } else { format!("FAIL PicParamSetId::from_u32({}) gave {}", v, i.id()) }, Err(_) => if v > 255 { "ok".into() } else { format!("FAIL PicParamSetId {} refused", v) } },
            _ => "ok".into(),
        }
    }

    /// SEI reader: reference message splitter on the reference-unescaped payload
    fn c10(&mut self, t: &[&str], line: &str) -> String {
        let obs = self.run.run_line(line);
        if obs == "PANIC" { return "FAIL panic".into(); }
        let chunks = chunks_of(t[0]); let complete = t[1] == "1"; let all: Vec<u8> = chunks.concat();
        let (rbsp, valid) = unescape(&all[1..]);
        let fin = if !valid { "InvalidData" } else if complete { "Eof" } else { "WouldBlock" };
        let mut want: Vec<String> = vec![]; let mut pos = 0usize; let mut seen = 0;
        // (a value that does not fit 32 bits is an error as soon as the running sum leaves the range - Err(true))
        let rd = |pos: &mut usize| -> Result<u64, bool> { let mut acc = 0u64; loop { if *pos >= rbsp.len() { return Err(false); } let b = rbsp[*pos]; *pos += 1; acc += b as u64; if acc >= 1u64 << 32 { return Err(true); } if b != 0xff { return Ok(acc); } } };
        loop {
            let ty = match rd(&mut pos) { Ok(v) => v, Err(over) => { want.push(format!("err:Io(payload_type,{})", if over { "InvalidData" } else { fin })); break; } };
            if ty == 0x80 && seen > 0 && pos == rbsp.len() { if fin == "Eof" { want.push("end".into()); } else { want.push(format!("err:Io(payload_type,{})", fin)); } break; }
            let len = match rd(&mut pos) { Ok(v) => v as usize, Err(over) => { want.push(format!("err:Io(payload_len,{})", if over { "InvalidData" } else { fin })); break; } };
            if rbsp.len() - pos < len { want.push(format!("err:Io(payload,{})", fin)); break; }
            want.push(format!("msg:{}:{}", ty, hex(&rbsp[pos..pos + len]))); pos += len; seen += 1;
        }
        for _ in 0..3 { want.push("end".into()); }
        let w = want.join(" ");
        if !valid {
            // a forbidden sequence may be reported before bytes that precede it have been handed out (the scanner examines
            // a whole window first): any prefix of the expected messages, then an InvalidData error, then the end
            let got: Vec<&str> = obs.split(' ').collect();
            let k = got.iter().take_while(|g| g.starts_with("msg:")).count();
            let ok = got[..k].iter().zip(want.iter()).all(|(a, b)| a == b) && k < want.len()
                && got.len() == k + 4 && got[k].starts_with("err:Io(") && got[k].ends_with(",InvalidData)") && got[k + 1..].iter().all(|g| *g == "end");
            return if ok { "ok".into() } else { format!("FAIL reader gave [{}] for a NAL with a forbidden sequence; expected a prefix of [{}] then InvalidData", obs, w) };
        }
        // (the field names inside the errors are the library's own strings: not compared)
        let strip = |t: &str| -> String { let mut out = String::new(); let mut rest = t; while let Some(k) = rest.find("Io(") { out.push_str(&rest[..k + 3]); let after = &rest[k + 3..]; match after.find(',') { Some(c) => { out.push('*'); rest = &after[c..]; } None => { rest = after; } } } out.push_str(rest); out };
        if strip(&obs) == strip(&w) { "ok".into() } else { format!("FAIL reader gave [{}] expected [{}]", obs, w) }
    }
}
