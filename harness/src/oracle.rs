//! Implementation-side oracles: each evaluates the property itself on the real code for one case line, using only
//! reference computations written from the standard (never the Lean model). Output: `ok` or `FAIL <what>`.
use crate::run::*;
use crate::util::*;
use h264_reader::annexb::AnnexBReader;

pub struct Oracle { run: Runner }

/// Annex B segmentation of a whole stream followed by end of stream: bytes of each unit and an end marker `E`
pub fn reference_segmentation(s: &[u8]) -> Vec<String> {
    let n = s.len(); let mut i = 0; let mut inside = false; let mut out = vec![];
    while i < n {
        if !inside {
            if i + 2 < n && s[i] == 0 && s[i + 1] == 0 && s[i + 2] == 1 { inside = true; i += 3; } else { i += 1; }
        } else if i + 2 < n && s[i] == 0 && s[i + 1] == 0 && s[i + 2] == 0 { out.push("E".to_string()); inside = false; i += 1; }
        else if i + 2 < n && s[i] == 0 && s[i + 1] == 0 && s[i + 2] == 1 { out.push("E".to_string()); i += 3; }
        else { out.push(format!("{:02x}", s[i])); i += 1; }
    }
    if inside { out.push("E".to_string()); }
    out
}

/// is a unit open after these bytes (no end of stream yet)?
pub fn inside_at_end(s: &[u8]) -> bool {
    let n = s.len(); let mut i = 0; let mut inside = false;
    while i < n {
        if i + 2 < n && s[i] == 0 && s[i + 1] == 0 && s[i + 2] == 1 { inside = true; i += 3; }
        else if inside && i + 2 < n && s[i] == 0 && s[i + 1] == 0 && s[i + 2] == 0 { inside = false; i += 1; }
        else { i += 1; }
    }
    inside
}

fn calls_of(ops: &[&str]) -> Vec<Vec<String>> {
    let mut rd = AnnexBReader::for_fragment_handler(Rec::default());
    let mut out = vec![];
    for op in ops { if *op == "r" { rd.reset(); } else { rd.push(&unhex(&op[2..])); } out.push(std::mem::take(&mut rd.fragment_handler_mut().calls)); }
    out
}
fn events(calls: &[String]) -> Vec<String> {
    let mut ev = vec![];
    for c in calls { let mut it = c.split(';'); let bufs = it.next().unwrap(); let end = it.next().unwrap();
        for b in bufs.split(',') { for k in 0..b.len() / 2 { ev.push(b[2 * k..2 * k + 2].to_string()); } }
        if end == "1" { ev.push("E".to_string()); } }
    ev
}

impl Oracle {
    pub fn new() -> Oracle { Oracle { run: Runner::new() } }
    pub fn check(&mut self, prop: &str, line: &str) -> String {
        let r = std::panic::catch_unwind(std::panic::AssertUnwindSafe(|| self.check_inner(prop, line)));
        match r { Ok(s) => s, Err(_) => "FAIL panic".to_string() }
    }
    fn check_inner(&mut self, prop: &str, line: &str) -> String {
        let toks: Vec<&str> = line.split_whitespace().collect();
        if toks.is_empty() { return "ok".into(); }
        match (prop, toks[0]) {
            ("C01", "annexb") => self.c01(&toks[1..]),
            ("C18", "annexb") => self.c18(&toks[1..]),
            ("C02", "rbsp") => self.c02_rbsp(&toks[1..], line),
            ("C02", "decodenal") => self.c02_decodenal(toks.get(1).copied().unwrap_or("-"), line),
            ("C15", "refnal") => self.c15(&toks[1..], line),
            ("C08", "acc") => self.c08(&toks[1..], line),
            ("C07", "bits") | ("C14", "bits") => self.bits(&toks[1..], line),
            ("C19", "ctx") => self.c19(&toks[1..], line),
            ("C10", "sei") => self.c10(&toks[1..], line),
            ("C03", _) => {
                // (the constant covers the parameter-set tables: 256 slots of a PPS, 32 of an SPS - fixed, input-independent sizes)
                // input size in bytes (hex digits / 2); the whole case execution (library + the harness's own parsing and
                // rendering, which is linear in input + output) must stay within a fixed multiple of it
                let len = line.bytes().filter(|b| b.is_ascii_hexdigit()).count() / 2;
                crate::alloc_count::reset();
                let o = self.run.run_line(line);
                let (maxreq, total) = crate::alloc_count::get();
                if o == "PANIC" { "FAIL panic".into() }
                else if maxreq > 65536 + 1024 * len { format!("FAIL a single heap request of {} bytes for an input of {} bytes (bound 65536 + 1024*len)", maxreq, len) }
                else if total > (1 << 20) + 16384 * len + 64 * o.len() { format!("FAIL {} bytes of heap requested in total for an input of {} bytes", total, len) }
                else { "ok".into() }
            }
            _ => { let _ = self.run.run_line(line); "ok".into() }
        }
    }

    /// per reset-delimited portion: events == reference segmentation of the bytes pushed in that portion, and equal to
    /// what one single push of those bytes delivers; the open tail (no final reset) must agree with a single push
    fn c01(&mut self, ops: &[&str]) -> String {
        let calls = calls_of(ops);
        let mut i = 0;
        while i < ops.len() {
            let mut j = i; let mut data = vec![]; let mut ev = vec![];
            while j < ops.len() && ops[j] != "r" { data.extend(unhex(&ops[j][2..])); ev.extend(events(&calls[j])); j += 1; }
            let h = format!("p:{}", hex(&data));
            if j < ops.len() {
                ev.extend(events(&calls[j]));
                let spec = reference_segmentation(&data);
                if ev != spec { return format!("FAIL portion at op {}: delivered [{}] but the Annex B segmentation is [{}]", i, ev.join(" "), spec.join(" ")); }
                let single = calls_of(&[&h, "r"]); let mut e1 = events(&single[0]); e1.extend(events(&single[1]));
                if ev != e1 { return format!("FAIL portion at op {}: chunked [{}] vs single push [{}]", i, ev.join(" "), e1.join(" ")); }
            } else {
                let single = calls_of(&[&h]); let e1 = events(&single[0]);
                if ev != e1 { return format!("FAIL open tail at op {}: chunked [{}] vs single push [{}]", i, ev.join(" "), e1.join(" ")); }
            }
            i = j + 1;
        }
        "ok".into()
    }

    fn c18(&mut self, ops: &[&str]) -> String {
        let calls = calls_of(ops);
        let mut open = false; // a unit has received a call and not been ended
        for (k, cs) in calls.iter().enumerate() {
            for c in cs {
                let mut it = c.split(';'); let bufs = it.next().unwrap(); let end = it.next().unwrap() == "1";
                let slices: Vec<&str> = if bufs.is_empty() { vec![] } else { bufs.split(',').collect() };
                if slices.iter().any(|s| s.is_empty()) { return format!("FAIL op {}: empty slice in call {}", k, c); }
                if slices.is_empty() && !end { return format!("FAIL op {}: call without slices that does not end a unit", k); }
                open = !end;
            }
            if ops[k] == "r" {
                if open { return format!("FAIL op {}: unit still open after reset", k); }
                // after a reset the reader behaves like a fresh one on the remaining operations
                let rest = calls_of(&ops[k + 1..]);
                if rest[..] != calls[k + 1..] { return format!("FAIL op {}: behaviour after reset differs from a fresh reader", k); }
                // a second reset right away makes no call
                if k + 1 < ops.len() && ops[k + 1] == "r" && !calls[k + 1].is_empty() { return format!("FAIL op {}: reset with no open unit made a call", k + 1); }
            }
        }
        // reset outside a unit makes no call: the reference scan tells whether a unit is open
        let mut data = vec![];
        for (k, op) in ops.iter().enumerate() {
            if *op == "r" {
                if !inside_at_end(&data) && !calls[k].is_empty() { return format!("FAIL op {}: reset outside a unit made a call", k); }
                if inside_at_end(&data) && calls[k].iter().filter(|c| c.ends_with(";1")).count() != 1 { return format!("FAIL op {}: reset inside a unit did not end it exactly once", k); }
                data.clear();
            } else { data.extend(unhex(&op[2..])); }
        }
        "ok".into()
    }

    fn c02_rbsp(&mut self, t: &[&str], line: &str) -> String {
        let obs = self.run.run_line(line);
        if obs == "PANIC" { return "FAIL panic".into(); }
        let chunks = chunks_of(t[0]); let complete = t[1] == "1"; let skip: usize = t[2].parse().unwrap();
        let all: Vec<u8> = chunks.concat();
        let payload = if skip <= all.len() { &all[skip..] } else { &[][..] };
        let (exp, valid) = unescape(payload);
        // what the op program took out of the reader: reads, and consumed prefixes of fills
        let mut delivered: Vec<u8> = vec![]; let mut last_fill: Vec<u8> = vec![]; let mut saw_invalid = false;
        for (op, o) in t[3..].iter().zip(obs.split(' ')) {
            if let Some(h) = o.strip_prefix("ok:") {
                let b = unhex(h);
                if op.starts_with('f') {
                    // a fill must show a prefix of what remains
                    if !exp[delivered.len().min(exp.len())..].starts_with(&b) { return format!("FAIL fill_buf returned {} which is not what follows the {} bytes delivered so far (expected RBSP {})", h, delivered.len(), hex(&exp)); }
                    if b.is_empty() { if !(complete && valid && delivered.len() == exp.len()) { return "FAIL fill_buf reported the end before the end of a complete valid NAL".into(); } }
                    last_fill = b;
                } else {
                    let n: usize = op[1..].parse().unwrap();
                    if b.is_empty() && n > 0 && !(complete && valid && delivered.len() == exp.len()) { return "FAIL read reported the end before the end of a complete valid NAL".into(); }
                    delivered.extend_from_slice(&b); let k = b.len().min(last_fill.len()); last_fill.drain(..k);
                }
            } else if let Some(k) = o.strip_prefix('c') { let k: usize = k.parse().unwrap(); let k = k.min(last_fill.len()); delivered.extend(last_fill.drain(..k)); }
            else if o == "err:InvalidData" { saw_invalid = true; if valid { return "FAIL InvalidData reported for a payload without forbidden sequences".into(); } }
            else if o == "err:WouldBlock" { if complete { return "FAIL WouldBlock on a complete NAL".into(); } if !valid || delivered.len() + last_fill.len() < exp.len() { if valid { return "FAIL WouldBlock before the buffered data was exhausted".into(); } } }
            else if o.starts_with("err:") { return format!("FAIL unexpected error {}", o); }
            if !exp.starts_with(&delivered) { return format!("FAIL delivered {} is not a prefix of the expected RBSP {}", hex(&delivered), hex(&exp)); }
        }
        let _ = saw_invalid;
        "ok".into()
    }

    fn c02_decodenal(&mut self, h: &str, line: &str) -> String {
        let obs = self.run.run_line(line);
        let d = if h == "-" { vec![] } else { unhex(h) };
        let payload = if d.is_empty() { &[][..] } else { &d[1..] };
        let (exp, valid) = unescape(payload);
        if obs == "PANIC" { return "FAIL decode_nal panicked".into(); }
        if !valid { return if obs == "err:InvalidData" { "ok".into() } else { format!("FAIL invalid payload not reported: {}", obs) }; }
        let borrowed = exp.len() == payload.len();
        let want = format!("{}:{}", if borrowed { "B" } else { "O" }, hex(&exp));
        if obs == want { "ok".into() } else { format!("FAIL decode_nal gave {} expected {}", obs, want) }
    }

    fn c15(&mut self, t: &[&str], line: &str) -> String {
        let obs = self.run.run_line(line);
        if obs == "PANIC" { return "FAIL panic".into(); }
        let chunks = chunks_of(t[0]); let complete = t[1] == "1"; let all: Vec<u8> = chunks.concat();
        // positions of the active reader and of the spare (clone) slot
        let (mut pos, mut spare) = (0usize, 0usize); let mut fill = 0usize;  let mut spare_fill = 0usize;
        for (op, o) in t[2..].iter().zip(obs.split(' ')) {
            match *op {
                "cl" => { spare = pos; spare_fill = fill; }
                "sw" => { std::mem::swap(&mut pos, &mut spare); std::mem::swap(&mut fill, &mut spare_fill); }
                "h" => { let b = all[0]; let want = if b & 0x80 != 0 { "hdr:err".to_string() } else { format!("hdr:{},{}", (b >> 5) & 3, b & 31) }; if o != want { return format!("FAIL header accessors gave {} expected {}", o, want); } }
                _ => {
                    if let Some(h) = o.strip_prefix("ok:") {
                        let b = unhex(h);
                        if !all[pos..].starts_with(&b) { return format!("FAIL at offset {} got {} which is not what follows", pos, h); }
                        if op.starts_with('f') { fill = b.len(); if b.is_empty() && !(complete && pos == all.len()) { return "FAIL empty fill_buf before the end of a complete NAL".into(); } if pos < all.len() && b.is_empty() { return "FAIL empty fill".into(); } }
                        else { let n: usize = op[1..].parse().unwrap(); if b.is_empty() && n > 0 && !(complete && pos == all.len()) { return "FAIL read returned 0 before the end of a complete NAL".into(); } if pos < all.len() && n > 0 && b.is_empty() { return "FAIL read made no progress".into(); } pos += b.len(); fill = 0; }
                    } else if let Some(k) = o.strip_prefix('c') { let k: usize = k.parse().unwrap(); if k > fill { return "FAIL harness consumed more than filled".into(); } pos += k; fill = 0; }
                    else if o == "err:WouldBlock" { if complete || pos != all.len() { return format!("FAIL WouldBlock at offset {} of {} (complete={})", pos, all.len(), complete); } }
                    else { return format!("FAIL unexpected {}", o); }
                }
            }
        }
        "ok".into()
    }

    fn c08(&mut self, steps: &[&str], line: &str) -> String {
        let obs = self.run.run_line(line);
        if obs == "PANIC" { return "FAIL panic".into(); }
        let mut sofar: Vec<u8> = vec![]; let mut ignored = false; let mut complete_seen = 0;
        for (k, (step, o)) in steps.iter().zip(obs.split(' ')).enumerate() {
            let parts: Vec<&str> = step.split(';').collect();
            let bufs: Vec<Vec<u8>> = if parts[0].is_empty() { vec![] } else { parts[0].split(',').map(unhex).collect() };
            let end = parts[1] == "1"; let new: Vec<u8> = bufs.concat();
            let mut now = sofar.clone(); now.extend_from_slice(&new);
            if o == "-" {
                if !ignored && !now.is_empty() { return format!("FAIL step {}: no invocation although the NAL has bytes and was never ignored", k); }
            } else {
                if ignored { return format!("FAIL step {}: invoked after Ignore", k); }
                let f: Vec<&str> = o.split('|').collect();
                let mut seen = unhex(f[0]); for c in f[1].split(',') { seen.extend(unhex(c)); }
                if seen != now { return format!("FAIL step {}: handler saw {} expected {}", k, hex(&seen), hex(&now)); }
                if unhex(f[0]).is_empty() { return format!("FAIL step {}: empty head chunk", k); }
                if (f[2] == "1") != end { return format!("FAIL step {}: complete flag {} but end={}", k, f[2], end); }
                if end { complete_seen += 1; }
                if parts[2] == "I" { ignored = true; }
            }
            sofar = now;
            if end { if !sofar.is_empty() && !ignored && complete_seen != 1 && o == "-" { return format!("FAIL step {}: NAL ended without exactly one complete invocation", k); } sofar.clear(); ignored = false; complete_seen = 0; }
        }
        "ok".into()
    }

    /// reference bit-level decoder (clause 7.2 / 9.1) over the bit vector
    fn bits(&mut self, t: &[&str], line: &str) -> String {
        let obs = self.run.run_line(line);
        if obs == "PANIC" { return "FAIL panic".into(); }
        let d = if t[0] == "-" { vec![] } else { unhex(t[0]) };
        let bits: Vec<bool> = d.iter().flat_map(|b| (0..8).map(move |i| (b >> (7 - i)) & 1 == 1)).collect();
        let mut pos = 0usize; let mut dead = false;
        for (op, o) in t[1..].iter().zip(obs.split(' ')) {
            if dead { if o != "-" { return format!("FAIL op after failure produced {}", o); } continue; }
            let rest = &bits[pos..];
            let ue = |rest: &[bool]| -> Result<(u64, usize), String> {
                let z = rest.iter().take_while(|b| !**b).count();
                if z >= rest.len() { return Err("Io(f,Eof)".into()); }
                if z > 31 { return Err("TooLarge(f)".into()); }
                if rest.len() < 2 * z + 1 { return Err("Io(f,Eof)".into()); }
                let mut v = 0u64; for b in &rest[z + 1..2 * z + 1] { v = v * 2 + *b as u64; }
                Ok(((1u64 << z) - 1 + v, 2 * z + 1))
            };
            let want: Result<String, String> = if *op == "ue" { ue(rest).map(|(v, n)| { pos += n; v.to_string() }) }
                else if *op == "se" { ue(rest).map(|(k, n)| { pos += n; let m = ((k + 1) / 2) as i64; (if k % 2 == 1 { m } else { -m }).to_string() }) }
                else if *op == "b" { if rest.is_empty() { Err("Io(f,Eof)".into()) } else { pos += 1; Ok(rest[0].to_string()) } }
                else if *op == "more" { Ok(rest.iter().skip(1).any(|b| *b).to_string()) }
                else if *op == "finish" { dead = true; if rest.is_empty() { Err("Io(finish,Eof)".into()) } else if rest[1..].iter().any(|b| *b) { Err("Remaining".into()) } else if rest[0] { Ok("ok".into()) } else { Err("Io(finish,Eof)".into()) } }
                else if *op == "seifinish" { dead = true; if rest.is_empty() { Ok("ok".into()) } else if rest[0] && !rest[1..].iter().any(|b| *b) { Ok("ok".into()) } else { Err("Remaining".into()) } }
                else if let Some(n) = op.strip_prefix("skip") { let n: usize = n.parse().unwrap(); if rest.len() < n { Err("Io(f,Eof)".into()) } else { pos += n; Ok("ok".into()) } }
                else { let n: usize = op[1..].parse().unwrap(); if rest.len() < n { Err("Io(f,Eof)".into()) } else { let mut v = 0u64; for b in &rest[..n] { v = v * 2 + *b as u64; } pos += n; Ok(v.to_string()) } };
            let (w, is_err) = match want { Ok(s) => (s, false), Err(s) => (s, true) };
            // names of the finish errors differ by call site; compare on the class for those
            let same = o == w || (is_err && w.starts_with("Io(finish") && o.starts_with("Io(") && o.ends_with(",Eof)"));
            if !same { return format!("FAIL op {} at bit {}: got {} expected {}", op, pos, o, w); }
            if is_err { dead = true; }
        }
        "ok".into()
    }

    fn c19(&mut self, ops: &[&str], line: &str) -> String {
        let obs = self.run.run_line(line);
        if obs == "PANIC" { return "FAIL panic".into(); }
        let mut sps: std::collections::BTreeMap<u64, u64> = Default::default(); let mut pps: std::collections::BTreeMap<u64, u64> = Default::default();
        for (op, o) in ops.iter().zip(obs.split(' ')) {
            let want = if let Some(x) = op.strip_prefix("gs") { let id: u64 = x.parse().unwrap(); if id > 31 { "badid".to_string() } else { sps.get(&id).map(|t| format!("some({},{})", id, t)).unwrap_or("none".into()) } }
                else if let Some(x) = op.strip_prefix("gp") { let id: u64 = x.parse().unwrap(); if id > 255 { "badid".to_string() } else { pps.get(&id).map(|t| format!("some({},{})", id, t)).unwrap_or("none".into()) } }
                else if *op == "is" { format!("[{}]", sps.iter().map(|(i, t)| format!("{},{}", i, t)).collect::<Vec<_>>().join(";")) }
                else if *op == "ip" { format!("[{}]", pps.iter().map(|(i, t)| format!("{},{}", i, t)).collect::<Vec<_>>().join(";")) }
                else if let Some(x) = op.strip_prefix('s') { let v: Vec<u64> = x.split(':').map(|y| y.parse().unwrap()).collect(); if v[0] <= 31 { sps.insert(v[0], v[1]); "ok".to_string() } else { "rej".to_string() } }
                else if let Some(x) = op.strip_prefix('p') { let v: Vec<u64> = x.split(':').map(|y| y.parse().unwrap()).collect(); if v[0] <= 255 && sps.contains_key(&v[1]) { pps.insert(v[0], v[2]); "ok".to_string() } else { "rej".to_string() } }
                else { "bad".to_string() };
            if o != want { return format!("FAIL op {}: got {} expected {}", op, o, want); }
        }
        "ok".into()
    }

    /// SEI reader: reference message splitter on the reference-unescaped payload
    fn c10(&mut self, t: &[&str], line: &str) -> String {
        let obs = self.run.run_line(line);
        if obs == "PANIC" { return "FAIL panic".into(); }
        let chunks = chunks_of(t[0]); let complete = t[1] == "1"; let all: Vec<u8> = chunks.concat();
        let (rbsp, valid) = unescape(&all[1..]);
        let fin = if !valid { "InvalidData" } else if complete { "Eof" } else { "WouldBlock" };
        let mut want: Vec<String> = vec![]; let mut pos = 0usize; let mut seen = 0;
        let rd = |pos: &mut usize| -> Result<u64, ()> { let mut acc = 0u64; loop { if *pos >= rbsp.len() { return Err(()); } let b = rbsp[*pos]; *pos += 1; acc += b as u64; if b != 0xff { return Ok(acc); } } };
        loop {
            let ty = match rd(&mut pos) { Ok(v) => v, Err(_) => { want.push(format!("err:Io(payload_type,{})", fin)); break; } };
            if ty == 0x80 && seen > 0 && pos == rbsp.len() { if fin == "Eof" { want.push("end".into()); } else { want.push(format!("err:Io(payload_type,{})", fin)); } break; }
            let len = match rd(&mut pos) { Ok(v) => v as usize, Err(_) => { want.push(format!("err:Io(payload_len,{})", fin)); break; } };
            if rbsp.len() - pos < len { want.push(format!("err:Io(payload,{})", fin)); break; }
            want.push(format!("msg:{}:{}", ty, hex(&rbsp[pos..pos + len]))); pos += len; seen += 1;
        }
        for _ in 0..3 { want.push("end".into()); }
        let w = want.join(" ");
        if !valid {
            // a forbidden sequence may be reported before bytes that precede it have been handed out (the scanner examines
            // a whole window first): any prefix of the expected messages, then an InvalidData error, then the end
            let got: Vec<&str> = obs.split(' ').collect();
            let k = got.iter().take_while(|g| g.starts_with("msg:")).count();
            let ok = got[..k].iter().zip(want.iter()).all(|(a, b)| a == b) && k < want.len()
                && got.len() == k + 4 && got[k].starts_with("err:Io(") && got[k].ends_with(",InvalidData)") && got[k + 1..].iter().all(|g| *g == "end");
            return if ok { "ok".into() } else { format!("FAIL reader gave [{}] for a NAL with a forbidden sequence; expected a prefix of [{}] then InvalidData", obs, w) };
        }
        if obs == w { "ok".into() } else { format!("FAIL reader gave [{}] expected [{}]", obs, w) }
    }
}
